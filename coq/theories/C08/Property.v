(** C08 — property theorems only (each closed by [exact]); see Proofs.v.
    The server model is C07/Model.v; [server_step]/[responses]/[step V_fixed] are the REPAIRED code,
    [V_orig] the code before the repairs. *)
From Coq Require Import List NArith Arith.
From Whad Require Import Lib.Bytes C07.Model C08.Model C08.Proofs.
Import ListNotations.
Open Scope N_scope.

(** The permission checks of the handlers ARE the reference permission model (property bit /\
    security requirement vs link state). *)
Theorem C08_read_check_is_reference_model :
  forall st h, read_denied st h = None <-> value_may_read st h = true.
Proof. exact read_denied_spec. Qed.

Theorem C08_write_check_is_reference_model :
  forall st h nf, write_denied st h nf = None <-> value_may_write st h = true.
Proof. exact write_denied_spec. Qed.

(** NON-INTERFERENCE.  [S] is any set of handles of characteristic values that the client may not
    read over the current link ([secret_ok]).  Two well-formed states that are equal except in the
    values stored at [S] ([view S st1 = view S st2]) answer EVERY session identically, provided the
    session contains no authorised write to a handle of [S] ([session_allowed]; such a write is
    legitimate and its answer may depend on the old value's length) and the hooks of the session,
    which may update any other characteristic (with the notifications that entails), do not
    themselves assign a characteristic of [S].  This is "a value is disclosed
    only if readable" for every procedure and every sequence at once: read, read blob (any
    offset), read by type, read by group type, read multiple, find information, find by type
    value, prepare/execute write, whatever the hooks do. *)
Theorem C08_non_interference :
  forall (S : N -> bool) (s : session) (st1 st2 : state),
    wf_state st1 = true -> wf_state st2 = true ->
    view S st1 = view S st2 -> secret_ok st1 S -> queue_clean st1 S ->
    inputs_ok st1 s -> session_allowed st1 S s ->
    responses st1 s = responses st2 s.
Proof. exact non_interference. Qed.

(** A characteristic value changes across a request only if the client may write it (WRITE /
    WRITE WITHOUT RESPONSE property and the write security requirements met by the link) -- or a
    hook of the application assigns that very characteristic itself ([hook_assigns]): for every
    state, every request (write request, write command, prepared + executed writes, ...) and all
    hook behaviours. *)
Theorem C08_write_needs_permission :
  forall (st : state) (r : att_request) (hk : hook_oracle) (h : N),
    is_value_handle st h = true -> value_may_write st h = false -> hook_assigns hk h = false ->
    value_at (fst (server_step st r hk)) h = value_at st h.
Proof. exact write_needs_permission. Qed.

(** ... and across every session. *)
Theorem C08_write_needs_permission_session :
  forall (s : session) (st : state) (h : N),
    is_value_handle st h = true -> value_may_write st h = false ->
    Forall (fun x => hook_assigns (snd x) h = false) s ->
    value_at (fold_left session_step s st) h = value_at st h.
Proof. exact write_needs_permission_session. Qed.

(** Notifications / indications are only sent for a characteristic whose CCCD the client has set to
    0x0001 / 0x0002 by its last accepted CCCD write of the CURRENT connection: over every history of
    client PDUs, link-security changes, application writes, disconnections and reconnections --
    including the notifications sent in the middle of a request because one of its hooks updates
    a characteristic.
    [history_ok st [] evs] threads the reference subscription table ([ref_step]: set by accepted CCCD
    writes, emptied by a disconnection) and checks every emitted PDU against it ([notif_ok]). *)
Theorem C08_notify_only_subscribed :
  forall (evs : list event) (st : state),
    wf_state st = true -> cccd_ok (st_db st) = true -> no_callbacks (st_db st) = true ->
    history_inputs_ok st evs -> history_ok st [] evs.
Proof.
  exact (fun evs st Hwf Hc Hn Hin => notify_only_subscribed evs st [] Hwf (sub_inv_init st Hwf Hc Hn) Hin).
Qed.

(** The code before the repairs (V_orig) on two states that differ only in the value of a
    write-only characteristic: Read Blob at offset == length and Find By Type Value on the
    declaration type tell them apart; a read-only characteristic is modified through Prepare +
    Execute Write. *)
Theorem C08_orig_non_interference_refuted :
  wf_state demo_state = true /\ wf_state demo_state2 = true
  /\ view demo_S demo_state = view demo_S demo_state2 /\ secret_ok demo_state demo_S
  /\ inputs_ok demo_state leak_session /\ session_allowed demo_state demo_S leak_session
  /\ responses_v V_orig demo_state leak_session
     = [ [PReadBlobRsp []]; [PError 12 10 7]; [PFindByTypeValueRsp [(9, 9)]];
         [PPrepareWriteRsp 6 0 [9]]; [PExecuteWriteRsp]; [PReadRsp [9]] ]
  /\ responses_v V_orig demo_state2 leak_session
     = [ [PError 12 10 2]; [PReadBlobRsp []]; [PError 6 1 10];
         [PPrepareWriteRsp 6 0 [9]]; [PExecuteWriteRsp]; [PReadRsp [9]] ].
Proof.
  exact (conj (proj1 demo_states_ok) (conj (proj1 (proj2 demo_states_ok))
        (conj (proj1 (proj2 (proj2 demo_states_ok))) (conj demo_secret_ok
        (conj (proj1 leak_session_ok) (conj (proj2 leak_session_ok) leak_session_orig)))))).
Qed.

Theorem C08_orig_write_needs_permission_refuted :
  let st1 := fst (server_step_v V_orig demo_state (PrepareWrite 6 0 [9]) no_hooks) in
  let st2 := fst (server_step_v V_orig st1 (ExecuteWrite 1) no_hooks) in
  is_value_handle st1 6 = true /\ value_may_write st1 6 = false
  /\ value_at st1 6 = Some [100] /\ value_at st2 6 = Some [9].
Proof. exact orig_execute_unchecked. Qed.

Theorem C08_orig_notify_after_disconnect_refuted :
  snd (run V_orig demo_state sub_disc_history) = [ [PWriteRsp]; [PNotification 6 [65]]; []; [PNotification 6 [66]] ]
  /\ snd (run V_fixed demo_state sub_disc_history) = [ [PWriteRsp]; [PNotification 6 [65]]; []; [] ].
Proof. exact orig_notifies_after_disconnect. Qed.

(** Non-vacuity: the hypotheses of the three theorems hold on the demo database with
    S = {handle 10} (a write-only characteristic) and a 13-request session probing it with every
    procedure; the answers are the expected errors. *)
Example C08_nonvacuous :
  wf_state demo_state = true /\ wf_state demo_state2 = true
  /\ view demo_S demo_state = view demo_S demo_state2
  /\ secret_ok demo_state demo_S /\ queue_clean demo_state demo_S
  /\ inputs_ok demo_state probe_session /\ session_allowed demo_state demo_S probe_session
  /\ cccd_ok demo_db = true /\ no_callbacks demo_db = true
  /\ history_inputs_ok demo_state sub_disc_history
  /\ nth 2 (responses demo_state probe_session) [] = [PError 12 10 2]
  /\ nth 10 (responses demo_state probe_session) [] = [PError 24 6 3].
Proof.
  destruct demo_states_ok as (H1 & H2 & H3 & H4 & H5).
  split; [exact H1|]. split; [exact H2|]. split; [exact H3|]. split; [exact demo_secret_ok|].
  split; [exact demo_queue_clean|]. split; [exact (proj1 probe_session_ok)|].
  split; [exact (proj2 probe_session_ok)|]. split; [exact H4|]. split; [exact H5|].
  split; [exact sub_disc_history_ok|]. rewrite probe_session_fixed. split; reflexivity.
Qed.
