(** C08 — lemmas: non-interference, writes need permission, notifications only when subscribed. *)
From Coq Require Import List NArith ZArith Arith Bool Lia ZifyBool ZifyN ZifyNat.
From Whad Require Import Lib.Bytes C07.Model C07.Proofs C08.Model.
Import ListNotations.
Open Scope N_scope.
Ltac Zify.zify_post_hook ::= Z.to_euclidean_division_equations.

(** * The permission checks of the code are the reference permission model *)

Lemma sec_check_ok st bits : sec_check st bits = None <-> sec_ok (st_enc st) (st_auth st) bits = true.
Proof.
  unfold sec_check, sec_ok.
  destruct (has bits S_AUTHN), (st_auth st), (has bits S_ENC), (st_enc st), (has bits S_AUTHOR); cbn; split; intros; try discriminate; reflexivity.
Qed.

Lemma read_denied_spec st h : read_denied st h = None <-> value_may_read st h = true.
Proof.
  unfold read_denied, value_may_read, may_read. destruct (lookup (h - 1) (st_db st)) as [c|]; [|split; discriminate].
  pose proof (sec_check_ok st (rsec c)) as H. destruct (sec_check st (rsec c)).
  - split; [discriminate|]. intros E. apply andb_true_iff in E as [_ E]. apply H in E. discriminate.
  - rewrite (proj1 H eq_refl), andb_true_r. destruct (readable c); split; auto; discriminate.
Qed.

Lemma write_denied_spec st h nf : write_denied st h nf = None <-> value_may_write st h = true.
Proof.
  unfold write_denied, value_may_write, may_write. destruct (lookup (h - 1) (st_db st)) as [c|]; [|split; discriminate].
  pose proof (sec_check_ok st (wsec c)) as H. destruct (sec_check st (wsec c)).
  - split; [discriminate|]. intros E. apply andb_true_iff in E as [_ E]. apply H in E. discriminate.
  - rewrite (proj1 H eq_refl), andb_true_r. destruct (writeable c); split; auto; discriminate.
Qed.

(** * Erasure *)

Section Erasure.
Variable S : N -> bool.
Notation er := (er S).

Lemma er_handle a : a_handle (er a) = a_handle a. Proof. unfold Model.er. destruct (S _); reflexivity. Qed.
Lemma er_kind a : a_kind (er a) = a_kind a. Proof. unfold Model.er. destruct (S _); reflexivity. Qed.
Lemma er_type a : a_type (er a) = a_type a. Proof. unfold Model.er. destruct (S _); reflexivity. Qed.
Lemma er_uuid a : a_uuid (er a) = a_uuid a. Proof. unfold Model.er. destruct (S _); reflexivity. Qed.
Lemma er_end a : a_end (er a) = a_end a. Proof. unfold Model.er. destruct (S _); reflexivity. Qed.
Lemma er_props a : a_props (er a) = a_props a. Proof. unfold Model.er. destruct (S _); reflexivity. Qed.
Lemma er_sec a : a_sec (er a) = a_sec a. Proof. unfold Model.er. destruct (S _); reflexivity. Qed.
Lemma er_ncb a : a_ncb (er a) = a_ncb a. Proof. unfold Model.er. destruct (S _); reflexivity. Qed.
Lemma er_icb a : a_icb (er a) = a_icb a. Proof. unfold Model.er. destruct (S _); reflexivity. Qed.
Lemma er_public a : S (a_handle a) = false -> er a = a.
Proof. unfold Model.er. intros ->. reflexivity. Qed.
Lemma er_idem a : er (er a) = er a.
Proof. unfold Model.er. destruct (S (a_handle a)) eqn:E; cbn; rewrite E; reflexivity. Qed.
Lemma er_payload a : a_kind a <> KValue -> a_kind a <> KCccd -> a_kind a <> KDesc -> payload (er a) = payload a.
Proof.
  intros. unfold payload. rewrite er_kind, er_props, er_handle, er_uuid.
  destruct (a_kind a); try reflexivity; try contradiction; unfold Model.er; destruct (S _); reflexivity.
Qed.
Lemma er_obj_uuid a : obj_uuid (er a) = obj_uuid a.
Proof. unfold obj_uuid. rewrite er_kind, er_uuid, er_type. reflexivity. Qed.
Lemma er_readable a : readable (er a) = readable a. Proof. unfold readable. rewrite er_props. reflexivity. Qed.
Lemma er_writeable a : writeable (er a) = writeable a. Proof. unfold writeable. rewrite er_props. reflexivity. Qed.
Lemma er_rsec a : rsec (er a) = rsec a. Proof. unfold rsec. rewrite er_sec. reflexivity. Qed.
Lemma er_wsec a : wsec (er a) = wsec a. Proof. unfold wsec. rewrite er_sec. reflexivity. Qed.

Lemma lookup_er h db : lookup h (map er db) = option_map er (lookup h db).
Proof.
  induction db as [|a r IH]; cbn [map lookup]; [reflexivity|]. rewrite er_handle.
  destruct (a_handle a =? h); [reflexivity|exact IH].
Qed.

Lemma filter_er (f : attr -> bool) l : (forall a, f (er a) = f a) -> filter f (map er l) = map er (filter f l).
Proof.
  intros Hf. induction l as [|a r IH]; cbn [map filter]; [reflexivity|]. rewrite Hf.
  destruct (f a); cbn [map]; rewrite IH; reflexivity.
Qed.

Lemma take_while_er (f : attr -> bool) l : (forall a, f (er a) = f a) ->
  take_while f (map er l) = map er (take_while f l).
Proof.
  intros Hf. induction l as [|a r IH]; cbn [map take_while]; [reflexivity|]. rewrite Hf.
  destruct (f a); cbn [map]; [rewrite IH|]; reflexivity.
Qed.

Lemma in_range_er s e a : in_range s e (er a) = in_range s e a.
Proof. unfold in_range. rewrite er_handle. reflexivity. Qed.

Lemma by_range_er s e db : by_range s e (map er db) = map er (by_range s e db).
Proof. apply filter_er. apply in_range_er. Qed.
Lemma by_type_er ty s e db : by_type ty s e (map er db) = map er (by_type ty s e db).
Proof. apply filter_er. intros a. rewrite er_type, in_range_er. reflexivity. Qed.

Lemma map_er_ext {B} (g : attr -> B) l : (forall a, g (er a) = g a) -> map g (map er l) = map g l.
Proof. intros H. rewrite map_map. apply map_ext. exact H. Qed.

Lemma update_er h f db :
  (forall a, a_handle a = h -> er (f a) = f (er a)) ->
  update h f (map er db) = map er (update h f db).
Proof.
  intros Hf. induction db as [|a r IH]; cbn [map update]; [reflexivity|]. rewrite er_handle.
  destruct (a_handle a =? h) eqn:E; cbn [map]; [|rewrite IH; reflexivity].
  apply N.eqb_eq in E. rewrite Hf by exact E. reflexivity.
Qed.

Lemma owner_decl_er h db cur : owner_decl h (map er db) cur = owner_decl h db cur.
Proof.
  revert cur. induction db as [|a r IH]; intros cur; cbn [map owner_decl]; [reflexivity|].
  rewrite er_handle, er_kind. destruct (a_handle a =? h); [reflexivity|apply IH].
Qed.

Lemma er_set_cbs a n i : er (set_cbs a n i) = set_cbs (er a) n i.
Proof. unfold Model.er. cbn. destruct (S (a_handle a)); reflexivity. Qed.

Lemma er_set_value_public a x : S (a_handle a) = false -> er (set_value a x) = set_value (er a) x.
Proof. unfold Model.er. cbn. intros ->. reflexivity. Qed.

End Erasure.

Lemma sorted_in_lookup db : forall lo a, sorted_from lo db = true -> In a db -> lookup (a_handle a) db = Some a.
Proof.
  induction db as [|x r IH]; intros lo a Hs Hin; [contradiction|].
  cbn [sorted_from] in Hs. apply andb_true_iff in Hs as [Hs Hr]. apply andb_true_iff in Hs as [Hlo _].
  cbn [lookup]. destruct Hin as [<-|Hin]; [rewrite N.eqb_refl; reflexivity|].
  destruct (a_handle x =? a_handle a) eqn:E; [|eapply IH; eauto].
  exfalso. apply N.eqb_eq in E.
  (* every handle in r is greater than a_handle x *)
  assert (forall l lo', sorted_from lo' l = true -> forall b, In b l -> lo' < a_handle b) as Hgt.
  { induction l as [|y l IHl]; intros lo' Hl b Hb; [contradiction|].
    cbn [sorted_from] in Hl. apply andb_true_iff in Hl as [Hl Hl2]. apply andb_true_iff in Hl as [Hl1 _].
    apply N.ltb_lt in Hl1. destruct Hb as [<-|Hb]; [exact Hl1|]. specialize (IHl _ Hl2 b Hb). lia. }
  specialize (Hgt r _ Hr a Hin). lia.
Qed.

(** * Static part of the database *)

Definition static_db (d1 d2 : db_t) : Prop := Forall2 static_eq d1 d2.

Lemma static_db_refl d : static_db d d.
Proof. induction d; constructor; [apply static_eq_refl|assumption]. Qed.

Lemma static_db_trans d1 d2 d3 : static_db d1 d2 -> static_db d2 d3 -> static_db d1 d3.
Proof.
  intros H. revert d3. induction H; intros d3 H3; inversion H3; subst; constructor.
  - eapply static_eq_trans; eauto.
  - apply IHForall2. assumption.
Qed.

Lemma update_static h f db : (forall a, static_eq a (f a)) -> static_db db (update h f db).
Proof.
  intros Hf. induction db as [|x r IH]; cbn [update]; [constructor|].
  destruct (a_handle x =? h); constructor; try apply static_eq_refl; try apply Hf; try apply static_db_refl; exact IH.
Qed.

Lemma set_value_static a x : static_eq a (set_value a x).
Proof. unfold static_eq. cbn. tauto. Qed.

Lemma set_cbs_static a n i : static_eq a (set_cbs a n i).
Proof. unfold static_eq. cbn. tauto. Qed.

Lemma lookup_static d1 d2 h : static_db d1 d2 ->
  match lookup h d1, lookup h d2 with
  | Some a, Some b => static_eq a b
  | None, None => True
  | _, _ => False
  end.
Proof.
  induction 1 as [|a b r1 r2 E _ IH]; cbn [lookup]; [exact I|].
  pose proof E as (Hh & _). rewrite <- Hh. destruct (a_handle a =? h); [exact E|exact IH].
Qed.

Lemma static_sorted d1 d2 : static_db d1 d2 -> forall lo, sorted_from lo d1 = sorted_from lo d2.
Proof.
  induction 1 as [|a b r1 r2 E _ IH]; intros lo; cbn [sorted_from]; [reflexivity|].
  destruct E as (Hh & _). rewrite Hh, IH. reflexivity.
Qed.

Lemma cccd_handle_spec db d hc : cccd_handle db d = Some hc ->
  exists x, In x db /\ a_handle x = hc /\ a_kind x = KCccd /\ owner_decl hc db None = Some d.
Proof.
  unfold cccd_handle. destruct (find _ db) as [x|] eqn:E; [|discriminate]. intros H. inversion H; subst.
  apply find_some in E as [Hin Hp]. apply andb_true_iff in Hp as [Hk Ho].
  exists x. repeat split; try assumption.
  - destruct (a_kind x); try discriminate. reflexivity.
  - destruct (owner_decl (a_handle x) db None) as [o|]; [|discriminate]. apply N.eqb_eq in Ho. congruence.
Qed.

Lemma db_sorted st : wf_state st = true -> sorted_from 0 (st_db st) = true.
Proof.
  intros Hwf. apply wf_state_inv in Hwf as (H & _). unfold wf_db in H.
  apply andb_true_iff in H as [H _]. apply andb_true_iff in H as [H _]. exact H.
Qed.

Definition relabel (r : hres) (st' : state) : hres := mkRes st' (r_out r) (r_exc r).
Definition map_state (f : state -> state) (r : hres) : hres := mkRes (f (r_state r)) (r_out r) (r_exc r).

Section NI.
Variable S : N -> bool.
Notation er := (er S).
Notation view := (view S).

Lemma view_idem st : view (view st) = view st.
Proof.
  unfold Model.view. cbn. unfold with_db. cbn. f_equal. rewrite map_map. apply map_ext. intros. apply er_idem.
Qed.

Section Step.
Variable st : state.
Hypothesis Hsorted : sorted_from 0 (st_db st) = true.
Hypothesis Hsec : secret_ok st S.

Lemma er_lookup_id h a :
  lookup h (st_db st) = Some a -> (a_kind a <> KValue \/ value_may_read st h = true) -> er a = a.
Proof.
  intros Hl Hc. apply er_public. apply lookup_in in Hl as Hh. destruct Hh as [_ Hh]. rewrite Hh.
  destruct (S h) eqn:E; [|reflexivity]. exfalso. destruct (Hsec h E) as [H1 H2]. specialize (H2 a Hl).
  destruct Hc as [Hc|Hc]; [contradiction|congruence].
Qed.

Lemma er_in_id a : In a (st_db st) -> (a_kind a <> KValue \/ value_may_read st (a_handle a) = true) -> er a = a.
Proof. intros Hin. apply er_lookup_id. eapply sorted_in_lookup; [apply Hsorted|exact Hin]. Qed.

Lemma view_db : st_db (view st) = map er (st_db st).
Proof. reflexivity. Qed.

Lemma read_denied_view h : read_denied (view st) h = read_denied st h.
Proof.
  unfold read_denied. rewrite view_db, lookup_er. destruct (lookup (h - 1) (st_db st)) as [c|]; cbn [option_map]; [|reflexivity].
  rewrite er_rsec, er_readable. reflexivity.
Qed.

Lemma write_denied_view h nf : write_denied (view st) h nf = write_denied st h nf.
Proof.
  unfold write_denied. rewrite view_db, lookup_er. destruct (lookup (h - 1) (st_db st)) as [c|]; cbn [option_map]; [|reflexivity].
  rewrite er_wsec, er_writeable. reflexivity.
Qed.

(** ** read-only handlers *)

Lemma find_info_view s e : h_find_info (view st) s e = relabel (h_find_info st s e) (view st).
Proof.
  unfold h_find_info. destruct ((s =? 0) || (e <? s)); [reflexivity|].
  rewrite view_db, by_range_er. destruct (by_range s e (st_db st)) as [|a0 r]; [reflexivity|].
  cbn [map]. cbv zeta. rewrite er_type.
  change (er a0 :: map er r) with (map er (a0 :: r)).
  rewrite firstn_map, take_while_er by (intros; rewrite er_type; reflexivity).
  rewrite map_er_ext by (intros; rewrite er_handle, er_type; reflexivity).
  reflexivity.
Qed.

Lemma fbtv_match_view ty vr l :
  (forall a, In a l -> In a (st_db st)) ->
  fbtv_match V_fixed (view st) ty vr (map er l) = fbtv_match V_fixed st ty vr l.
Proof.
  induction l as [|a r IH]; intros Hin; cbn [map fbtv_match]; [reflexivity|].
  rewrite er_type. rewrite IH by (intros; apply Hin; right; assumption).
  destruct (negb (bytes_eqb ty (a_type a))); [reflexivity|].
  rewrite er_kind, er_handle, er_end. cbn [fx_fbtv V_fixed].
  assert (Ha : In a (st_db st)) by (apply Hin; left; reflexivity).
  destruct (a_kind a) eqn:K.
  - rewrite (er_in_id a Ha) by (left; rewrite K; discriminate). reflexivity.
  - rewrite (er_in_id a Ha) by (left; rewrite K; discriminate). reflexivity.
  - rewrite er_payload by (rewrite K; discriminate). reflexivity.
  - rewrite er_payload by (rewrite K; discriminate). reflexivity.
  - rewrite read_denied_view. destruct (read_denied st (a_handle a)) eqn:E; [reflexivity|].
    rewrite (er_in_id a Ha) by (right; apply read_denied_spec; exact E). reflexivity.
  - rewrite (er_in_id a Ha) by (left; rewrite K; discriminate). reflexivity.
  - rewrite (er_in_id a Ha) by (left; rewrite K; discriminate). reflexivity.
Qed.

Lemma fbtv_view s e ty vr : h_fbtv V_fixed (view st) s e ty vr = relabel (h_fbtv V_fixed st s e ty vr) (view st).
Proof.
  unfold h_fbtv. destruct ((s =? 0) || (e <? s)); [reflexivity|].
  rewrite view_db, by_range_er, fbtv_match_view by (intros a Ha; eapply by_range_in; eauto).
  destruct (fbtv_match V_fixed st (uuid16 ty) vr (by_range s e (st_db st))) as [[|x l]|]; reflexivity.
Qed.

(** *** characteristic updates made by hooks commute with the view (when they avoid [S]) *)

Lemma cccd_handle_er db d : cccd_handle (map er db) d = cccd_handle db d.
Proof.
  unfold cccd_handle.
  assert (G : forall l, option_map a_handle (find (fun a => kind_eqb (a_kind a) KCccd
                 && match owner_decl (a_handle a) (map er db) None with Some o => o =? d | None => false end) (map er l))
              = option_map a_handle (find (fun a => kind_eqb (a_kind a) KCccd
                 && match owner_decl (a_handle a) db None with Some o => o =? d | None => false end) l)).
  { induction l as [|a r IH]; cbn [map find]; [reflexivity|].
    rewrite er_kind, er_handle, owner_decl_er.
    destruct (kind_eqb (a_kind a) KCccd && _); [cbn; rewrite er_handle; reflexivity|exact IH]. }
  apply G.
Qed.

Lemma cfg_of_er db d :
  sorted_from 0 db = true ->
  (forall h a, lookup h db = Some a -> a_kind a <> KValue -> S h = false) ->
  cfg_of (map er db) d = cfg_of db d.
Proof.
  intros Hs Hn. unfold cfg_of. rewrite cccd_handle_er.
  destruct (cccd_handle db d) as [hc|] eqn:Ec; [|reflexivity].
  rewrite lookup_er.
  destruct (cccd_handle_spec _ _ _ Ec) as (x & Hin & Hh & Hk & _).
  pose proof (sorted_in_lookup _ 0 x Hs Hin) as Lx. rewrite Hh in Lx. rewrite Lx. cbn [option_map].
  rewrite er_public; [reflexivity|]. rewrite Hh. apply (Hn hc x Lx). rewrite Hk. discriminate.
Qed.

Lemma S_only_values h a : lookup h (st_db st) = Some a -> a_kind a <> KValue -> S h = false.
Proof.
  intros L K. destruct (S h) eqn:E; [|reflexivity]. destruct (Hsec h E) as [_ H2]. specialize (H2 a L). contradiction.
Qed.

Lemma notify_via_view s0 id o mk vh val :
  notify_via (view s0) id o mk vh val = map_state view (notify_via s0 id o mk vh val).
Proof.
  unfold notify_via. change (find_inst (view s0) id) with (find_inst s0 id).
  destruct (find_inst s0 id) as [i|]; [|reflexivity]. destruct (i_proc_locked i); [reflexivity|].
  destruct o as [|x| | | | |g1 g2 g3|]; reflexivity.
Qed.

Lemma app_set_view d v hk : S (d + 1) = false ->
  app_set (view st) d v hk = map_state view (app_set st d v hk).
Proof.
  intros Hs. unfold app_set. rewrite view_db, !lookup_er.
  destruct (lookup d (st_db st)) as [c|]; cbn [option_map]; [|reflexivity].
  rewrite er_kind. destruct (a_kind c); try reflexivity.
  rewrite er_props, er_ncb, er_icb.
  set (db1 := match lookup (d + 1) (st_db st) with
              | Some x => if kind_eqb (a_kind x) KValue
                          then update (d + 1) (fun a => set_value a v) (st_db st) else st_db st
              | None => st_db st end).
  assert (Edb : match option_map er (lookup (d + 1) (st_db st)) with
                | Some x => if kind_eqb (a_kind x) KValue
                            then update (d + 1) (fun a => set_value a v) (map er (st_db st)) else map er (st_db st)
                | None => map er (st_db st) end = map er db1).
  { unfold db1. destruct (lookup (d + 1) (st_db st)) as [x|]; cbn [option_map]; [|reflexivity].
    rewrite er_kind. destruct (kind_eqb (a_kind x) KValue); [|reflexivity].
    apply update_er. intros a Ea. apply er_set_value_public. rewrite Ea. exact Hs. }
  rewrite Edb.
  assert (Ecfg : cfg_of (map er db1) d = cfg_of db1 d).
  { assert (Est : static_db (st_db st) db1).
    { unfold db1. destruct (lookup (d + 1) (st_db st)) as [x|]; [|apply static_db_refl].
      destruct (kind_eqb (a_kind x) KValue); [|apply static_db_refl].
      apply update_static. intros. apply set_value_static. }
    apply cfg_of_er.
    - rewrite <- (static_sorted _ _ Est). apply Hsorted.
    - intros h a L K. pose proof (lookup_static _ _ h Est) as LS. rewrite L in LS.
      destruct (lookup h (st_db st)) as [a0|] eqn:L0; [|contradiction]. destruct LS as (_ & Hk & _).
      apply (S_only_values h a0 L0). rewrite Hk. exact K. }
  rewrite Ecfg.
  change (with_db (view st) (map er db1)) with (view (with_db st db1)).
  repeat match goal with
  | |- context [if ?x then _ else _] => destruct x
  | |- context [match a_ncb c with _ => _ end] => destruct (a_ncb c)
  | |- context [match a_icb c with _ => _ end] => destruct (a_icb c)
  end; try reflexivity; apply notify_via_view.
Qed.

Lemma hook_act_view hk act o : act_avoids S act = true ->
  hook_act (view st) hk act o =
  (let '(st1, pd, res) := hook_act st hk act o in (view st1, pd, res)).
Proof.
  intros Ha. unfold hook_act. destruct act as [[d v]|]; [|reflexivity].
  cbn [act_avoids] in Ha. apply negb_true_iff in Ha. rewrite (app_set_view d v hk Ha). reflexivity.
Qed.

Lemma val_at_view s0 h : S h = false -> val_at (view s0) h = val_at s0 h.
Proof.
  intros Hs. unfold val_at. change (st_db (view s0)) with (map er (st_db s0)). rewrite lookup_er.
  destruct (lookup h (st_db s0)) as [a|] eqn:L; [|reflexivity]. cbn [option_map].
  rewrite er_public; [reflexivity|]. apply lookup_in in L as [_ ->]. exact Hs.
Qed.

Lemma hook_error_map s0 op opa h o : hook_error (view s0) op opa h o = map_state view (hook_error s0 op opa h o).
Proof. destruct o as [|x| | | | |g1 g2 g3|]; reflexivity. Qed.

Lemma read_value_answer_view hk op opa h mk (normal : state -> bytes) :
  act_avoids S (ha_read (h_acts hk)) = true -> (forall s0, normal (view s0) = normal s0) ->
  read_value_answer (view st) hk op opa h mk normal = map_state view (read_value_answer st hk op opa h mk normal).
Proof.
  intros Ha Hn. unfold read_value_answer. rewrite (hook_act_view hk _ _ Ha).
  destruct (hook_act st hk (ha_read (h_acts hk)) (h_read hk)) as [[st1 pd] res].
  change (mtu_of (view st)) with (mtu_of st).
  destruct res as [o'|]; [|reflexivity].
  destruct o' as [|x| | | | |g1 g2 g3|]; try reflexivity; try (rewrite hook_error_map; reflexivity).
  unfold map_state. cbn [r_state r_out r_exc done]. rewrite Hn. reflexivity.
Qed.

Lemma read_req_view hk h : act_avoids S (ha_read (h_acts hk)) = true ->
  h_read_req V_fixed (view st) hk h = map_state view (h_read_req V_fixed st hk h).
Proof.
  intros Ha. unfold h_read_req. cbn [fx_read_default V_fixed].
  destruct (h =? 0); [reflexivity|].
  rewrite view_db, lookup_er. destruct (lookup h (st_db st)) as [a|] eqn:El; cbn [option_map]; [|reflexivity].
  rewrite er_kind. change (mtu_of (view st)) with (mtu_of st). destruct (a_kind a) eqn:K.
  - rewrite er_payload by (rewrite K; discriminate). reflexivity.
  - rewrite er_payload by (rewrite K; discriminate). reflexivity.
  - rewrite er_payload by (rewrite K; discriminate). reflexivity.
  - rewrite er_payload by (rewrite K; discriminate). reflexivity.
  - rewrite read_denied_view. destruct (read_denied st h) eqn:E; [reflexivity|].
    apply read_value_answer_view; [exact Ha|]. intros s0. rewrite val_at_view; [reflexivity|].
    destruct (S h) eqn:Es; [|reflexivity]. destruct (Hsec h Es) as [H1 _]. apply read_denied_spec in E. congruence.
  - rewrite (er_lookup_id h a El) by (left; rewrite K; discriminate). reflexivity.
  - rewrite (er_lookup_id h a El) by (left; rewrite K; discriminate). reflexivity.
Qed.

Lemma read_blob_view hk h off : act_avoids S (ha_read (h_acts hk)) = true ->
  h_read_blob V_fixed (view st) hk h off = map_state view (h_read_blob V_fixed st hk h off).
Proof.
  intros Ha. unfold h_read_blob. cbn [fx_blob V_fixed].
  destruct (h =? 0); [reflexivity|].
  rewrite view_db, lookup_er. destruct (lookup h (st_db st)) as [a|] eqn:El; cbn [option_map]; [|reflexivity].
  rewrite er_kind. change (mtu_of (view st)) with (mtu_of st). destruct (a_kind a) eqn:K;
    try (rewrite er_payload by (rewrite K; discriminate);
         repeat match goal with |- context [if ?b then _ else _] => destruct b end; reflexivity);
    try (rewrite (er_lookup_id h a El) by (left; rewrite K; discriminate);
         repeat match goal with |- context [if ?b then _ else _] => destruct b end; reflexivity).
  rewrite read_denied_view. destruct (read_denied st h) eqn:E; [reflexivity|].
  rewrite (er_lookup_id h a El) by (right; apply read_denied_spec; exact E).
  repeat match goal with |- context [if ?b then _ else _] => destruct b end; try reflexivity.
  unfold blob_value_branch. change (mtu_of (view st)) with (mtu_of st).
  apply read_value_answer_view; [exact Ha|]. intros s0. rewrite val_at_view; [reflexivity|].
  destruct (S h) eqn:Es; [|reflexivity]. destruct (Hsec h Es) as [H1 _]. apply read_denied_spec in E. congruence.
Qed.

Lemma read_by_type_view s e ty : h_read_by_type (view st) s e ty = relabel (h_read_by_type st s e ty) (view st).
Proof.
  unfold h_read_by_type. destruct ((s =? 0) || (e <? s)); [reflexivity|].
  rewrite view_db, by_type_er. destruct (by_type ty s e (st_db st)) as [|a0 r]; [reflexivity|].
  cbn [map]. cbv zeta. rewrite er_uuid.
  change (er a0 :: map er r) with (map er (a0 :: r)).
  change (mtu_of (view st)) with (mtu_of st).
  rewrite !firstn_map.
  rewrite take_while_er by (intros; rewrite er_uuid; reflexivity).
  rewrite !filter_er by (intros; rewrite ?er_uuid, ?er_kind; reflexivity).
  assert (Hmap : forall p, (forall a, p a = true -> a_kind a = KDecl \/ a_kind a = KInclude) ->
            forall l, map (fun a => (a_handle a, payload a)) (map er (filter p l))
                      = map (fun a => (a_handle a, payload a)) (filter p l)).
  { intros p Hp l. rewrite map_map. apply map_ext_in. intros a Ha. apply filter_In in Ha as [_ Ha].
    rewrite er_handle, er_payload; try reflexivity; destruct (Hp a Ha) as [K|K]; rewrite K; discriminate. }
  destruct (bytes_eqb ty (uuid16 10243)).
  - rewrite Hmap.
    + match goal with |- context [match ?l with [] => _ | _ :: _ => _ end] => destruct l end; reflexivity.
    + intros a Ha. left. destruct (a_kind a); try discriminate. reflexivity.
  - destruct (bytes_eqb ty (uuid16 10242)); [|reflexivity].
    rewrite Hmap.
    + match goal with |- context [match ?l with [] => _ | _ :: _ => _ end] => destruct l end; reflexivity.
    + intros a Ha. apply andb_true_iff in Ha as [_ Ha]. right. destruct (a_kind a); try discriminate. reflexivity.
Qed.

Lemma group_items_er usz l : group_items V_fixed usz (map er l) = group_items V_fixed usz l.
Proof.
  induction l as [|a r IH]; cbn [map group_items]; [reflexivity|].
  rewrite er_kind, er_end, er_handle, er_obj_uuid, IH. reflexivity.
Qed.

Lemma read_by_group_view s e ty : h_read_by_group V_fixed (view st) s e ty = relabel (h_read_by_group V_fixed st s e ty) (view st).
Proof.
  unfold h_read_by_group. destruct ((s =? 0) || (e <? s)); [reflexivity|].
  destruct (negb (existsb (N.eqb ty) SUPPORTED_GROUPS)); [reflexivity|].
  rewrite view_db, by_type_er. destruct (by_type (uuid16 ty) s e (st_db st)) as [|a0 r]; [reflexivity|].
  cbn [map]. cbv zeta. rewrite er_obj_uuid.
  change (er a0 :: map er r) with (map er (a0 :: r)).
  change (mtu_of (view st)) with (mtu_of st).
  rewrite firstn_map, group_items_er.
  match goal with |- context [group_items V_fixed ?u ?l] => destruct (group_items V_fixed u l) end; reflexivity.
Qed.

End Step.
End NI.

(** * Static part of the database along a step *)

(** a state whose database has the same static part and the same link state *)
Definition same_static (st st' : state) : Prop :=
  static_db (st_db st) (st_db st') /\ st_enc st' = st_enc st /\ st_auth st' = st_auth st.

Lemma same_static_refl st : same_static st st.
Proof. split; [apply static_db_refl|auto]. Qed.
Lemma same_static_trans a b c : same_static a b -> same_static b c -> same_static a c.
Proof. intros (H1 & H2 & H3) (K1 & K2 & K3). split; [eapply static_db_trans; eauto|split; congruence]. Qed.
Lemma same_static_db st db' : static_db (st_db st) db' -> same_static st (with_db st db').
Proof. intros. split; [assumption|auto]. Qed.

Lemma value_may_read_static st st' h : same_static st st' -> value_may_read st' h = value_may_read st h.
Proof.
  intros (Hd & He & Ha). unfold value_may_read. pose proof (lookup_static _ _ (h - 1) Hd) as L.
  destruct (lookup (h - 1) (st_db st)) as [c|], (lookup (h - 1) (st_db st')) as [c'|]; try contradiction; [|reflexivity].
  destruct L as (_ & _ & _ & _ & _ & Hp & Hs & _). unfold may_read, readable, rsec. rewrite He, Ha, <- Hp, <- Hs. reflexivity.
Qed.
Lemma value_may_write_static st st' h : same_static st st' -> value_may_write st' h = value_may_write st h.
Proof.
  intros (Hd & He & Ha). unfold value_may_write. pose proof (lookup_static _ _ (h - 1) Hd) as L.
  destruct (lookup (h - 1) (st_db st)) as [c|], (lookup (h - 1) (st_db st')) as [c'|]; try contradiction; [|reflexivity].
  destruct L as (_ & _ & _ & _ & _ & Hp & Hs & _). unfold may_write, writeable, wsec. rewrite He, Ha, <- Hp, <- Hs. reflexivity.
Qed.

Lemma secret_ok_static S st st' : same_static st st' -> secret_ok st S -> secret_ok st' S.
Proof.
  intros Hs Hsec h Hh. destruct (Hsec h Hh) as [H1 H2]. split.
  - rewrite (value_may_read_static _ _ _ Hs). exact H1.
  - intros a' Ha'. destruct Hs as (Hd & _). pose proof (lookup_static _ _ h Hd) as L. rewrite Ha' in L.
    destruct (lookup h (st_db st)) as [a|]; [|contradiction]. destruct L as (_ & Hk & _). rewrite <- Hk. apply H2. reflexivity.
Qed.

(** every handler keeps the static part *)
Lemma hook_error_static st op opa h o : same_static st (r_state (hook_error st op opa h o)).
Proof. rewrite hook_error_state. apply same_static_refl. Qed.

Lemma app_set_static st d v hk : same_static st (r_state (app_set st d v hk)).
Proof.
  pose proof (app_set_frame st d v hk) as F.
  split; [|split; [apply (fr_enc _ _ F)|apply (fr_auth _ _ F)]].
  assert (Hdb : forall st1, app_db st d v st1 -> static_db (st_db st) (st_db st1)).
  { intros st1 [->|(a & _ & _ & ->)]; [apply static_db_refl|]. apply update_static. intros. apply set_value_static. }
  destruct (app_set_shape st d v hk) as [st1 H|st1 id H|st1 id H]; cbn [r_state done];
    rewrite ?notify_via_db; apply Hdb, H.
Qed.

Lemma hook_act_static st hk act o st1 pd res : hook_act st hk act o = (st1, pd, res) -> same_static st st1.
Proof.
  unfold hook_act. destruct act as [[d v]|]; intros E; inversion E; subst; [apply app_set_static|apply same_static_refl].
Qed.

Lemma post_hook_static st hk act o out : same_static st (r_state (post_hook st hk act o out)).
Proof.
  unfold post_hook. destruct (hook_act st hk act o) as [[st1 pd] res] eqn:E.
  pose proof (hook_act_static _ _ _ _ _ _ _ E) as H. destruct res as [o'|]; exact H.
Qed.

Lemma read_value_answer_static st hk op opa h mk normal : same_static st (r_state (read_value_answer st hk op opa h mk normal)).
Proof.
  unfold read_value_answer. destruct (hook_act st hk (ha_read (h_acts hk)) (h_read hk)) as [[st1 pd] res] eqn:E.
  pose proof (hook_act_static _ _ _ _ _ _ _ E) as H. destruct res as [o'|]; [|exact H].
  destruct o' as [|x| | | | |g1 g2 g3|]; cbn [r_state done prepend]; try exact H; rewrite hook_error_state; exact H.
Qed.

Lemma read_req_static st hk h : same_static st (r_state (h_read_req V_fixed st hk h)).
Proof.
  unfold h_read_req. cbn [fx_read_default V_fixed].
  destruct (h =? 0); [apply same_static_refl|].
  destruct (lookup h (st_db st)) as [a|]; [|apply same_static_refl].
  destruct (a_kind a); try apply same_static_refl.
  destruct (read_denied st h); [apply same_static_refl|apply read_value_answer_static].
Qed.

Lemma read_blob_static st hk h off : same_static st (r_state (h_read_blob V_fixed st hk h off)).
Proof.
  unfold h_read_blob, blob_value_branch. cbn [fx_blob V_fixed].
  destruct (h =? 0); [apply same_static_refl|].
  destruct (lookup h (st_db st)) as [a|]; [|apply same_static_refl].
  destruct (a_kind a);
    repeat match goal with
    | |- context [read_denied st h] => destruct (read_denied st h)
    | |- context [off <? ?x] => destruct (off <? x)
    | |- context [off =? ?x] => destruct (off =? x)
    end; try apply same_static_refl; apply read_value_answer_static.
Qed.

Lemma store_static st h x : same_static st (with_db st (update h (fun a => set_value a x) (st_db st))).
Proof. apply same_static_db, update_static. intros. apply set_value_static. Qed.

Lemma write_value_static st hk op opa h val rsp : same_static st (r_state (write_value st hk op opa h val rsp)).
Proof.
  unfold write_value. cbv zeta.
  dha ha_write st1 pd1 res1 E1. pose proof (hook_act_static _ _ _ _ _ _ _ E1) as S1.
  destruct res1 as [o1|]; [|exact S1].
  destruct o1 as [|x| | | | |g1 g2 g3|]; try (cbn [r_state prepend]; rewrite hook_error_state; exact S1).
  - eapply same_static_trans; [exact S1|]. eapply same_static_trans; [apply (store_static st1 h val)|apply post_hook_static].
  - eapply same_static_trans; [exact S1|]. eapply same_static_trans; [apply (store_static st1 h x)|apply post_hook_static].
  - destruct rsp; [exact S1|]. cbn [r_state prepend]. rewrite hook_error_state. exact S1.
Qed.

Lemma cccd_effects_static st hk h newv record out : same_static st (r_state (cccd_effects st hk h newv record out)).
Proof.
  unfold cccd_effects.
  assert (S1 : same_static st (with_db st (update h (fun a => set_value a newv) (st_db st)))) by apply store_static.
  assert (S2 : forall d f, (forall c, static_eq c (f c)) ->
             same_static st (with_db (with_db st (update h (fun a => set_value a newv) (st_db st)))
                                     (update d f (update h (fun a => set_value a newv) (st_db st))))).
  { intros. eapply same_static_trans; [apply S1|]. apply same_static_db, update_static. assumption. }
  assert (S3 : forall s1 subs, same_static st s1 -> same_static st (with_subs s1 subs)) by (intros s1 subs H; exact H).
  destruct (un_le16_2 newv) as [cfg|]; [|exact S1].
  destruct (owner_decl h (st_db st) None) as [d|]; [|exact S1].
  destruct (cfg =? 1); [destruct record; (eapply same_static_trans; [|apply post_hook_static]); try apply S3; apply S2; intros; apply set_cbs_static|].
  destruct (cfg =? 2); [destruct record; (eapply same_static_trans; [|apply post_hook_static]); try apply S3; apply S2; intros; apply set_cbs_static|].
  destruct (cfg =? 0); [(eapply same_static_trans; [|apply post_hook_static]); apply S3; apply S2; intros; apply set_cbs_static|exact S1].
Qed.

Lemma write_gen_static st hk is_cmd h val : same_static st (r_state (h_write_gen V_fixed st hk is_cmd h val)).
Proof.
  unfold h_write_gen. cbn [fx_write_default fx_sub_record V_fixed].
  destruct (h =? 0); [apply same_static_refl|].
  destruct (lookup h (st_db st)) as [a|]; [|apply same_static_refl].
  destruct (a_kind a); try (destruct is_cmd; apply same_static_refl).
  - destruct (write_denied st h E_NOT_FOUND); [apply same_static_refl|apply write_value_static].
  - match goal with |- context [if ?b then cccd_effects _ _ _ _ _ _ else _] => destruct b end;
      [apply cccd_effects_static|apply same_static_refl].
Qed.

Lemma apply_writes_static h ws : forall db, static_db db (fst (apply_writes h ws db)).
Proof.
  induction ws as [|[off val] r IH]; intros db; cbn [apply_writes]; [apply static_db_refl|].
  destruct (lookup h db) as [a|]; [|apply static_db_refl].
  destruct (nlen (a_value a) <? off); [apply static_db_refl|].
  eapply static_db_trans; [|apply IH]. apply update_static. intros. apply set_value_static.
Qed.

Lemma exec_loop_static q : forall st,
  match exec_loop V_fixed st q with
  | inl r => same_static st (r_state r)
  | inr st' => same_static st st'
  end.
Proof.
  induction q as [|[h ws] q IH]; intros st; cbn [exec_loop]; [apply same_static_refl|].
  cbn [fx_exec_perm V_fixed].
  destruct (lookup h (st_db st)) as [a|]; [|split; [apply static_db_refl|auto]].
  destruct (a_kind a); try apply IH.
  destruct (write_denied st h E_INVALID_HANDLE); [split; [apply static_db_refl|auto]|].
  pose proof (apply_writes_static h ws (st_db st)) as E.
  destruct (apply_writes h ws (st_db st)) as [db' ok]. cbn [fst] in E.
  destruct ok.
  - specialize (IH (with_db st db')).
    destruct (exec_loop V_fixed (with_db st db') q);
      (eapply same_static_trans; [apply same_static_db; exact E|exact IH]).
  - cbn [r_state err done]. split; [exact E|auto].
Qed.

Lemma execute_static st f : same_static st (r_state (h_execute V_fixed st f)).
Proof.
  unfold h_execute. cbn [fx_exec_clear fx_exec_flags V_fixed].
  destruct (f =? 0); [split; [apply static_db_refl|auto]|]. destruct (f =? 1); [|apply same_static_refl].
  pose proof (exec_loop_static (i_queues (st_cur st)) st) as H.
  destruct (exec_loop V_fixed st (i_queues (st_cur st))); [exact H|].
  cbn [r_state done]. exact H.
Qed.

Lemma locked_static v st body : same_static (with_lock st true) (r_state (body (with_lock st true))) ->
  same_static st (r_state (locked v st body)).
Proof.
  intros H. unfold locked. destruct (tx_locked st); [apply same_static_refl|].
  destruct (r_exc (body (with_lock st true))) as [[]|]; exact H.
Qed.

Lemma handle_static st r hk : same_static st (r_state (handle V_fixed st r hk)).
Proof.
  destruct r; cbn [handle fx_rbt128 V_fixed]; rewrite ?unparsed_state; try apply same_static_refl; try apply locked_static.
  - unfold h_mtu. cbn [r_state done]. destruct (23 <=? mtu); (split; [apply static_db_refl|auto]).
  - rewrite find_info_state. apply same_static_refl.
  - rewrite fbtv_state. apply same_static_refl.
  - rewrite read_by_type_state. apply same_static_refl.
  - rewrite read_by_type_state. apply same_static_refl.
  - apply read_req_static.
  - apply read_blob_static.
  - destruct hs; [rewrite unparsed_state; apply same_static_refl|]. apply locked_static, same_static_refl.
  - rewrite read_by_group_state. apply same_static_refl.
  - apply write_gen_static.
  - apply write_gen_static.
  - unfold h_prepare. destruct (lookup h _) as [a0|]; [destruct (a_kind a0)|]; (split; [apply static_db_refl|auto]).
  - apply execute_static.
  - apply same_static_refl.
Qed.

(** * A value changes only if the client may write it *)

Lemma lookup_update_ne h h' f db : h' <> h -> (forall a, a_handle (f a) = a_handle a) ->
  lookup h' (update h f db) = lookup h' db.
Proof.
  intros Hne Hf. induction db as [|x r IH]; cbn [update lookup]; [reflexivity|].
  destruct (a_handle x =? h) eqn:E; cbn [lookup].
  - rewrite Hf. apply N.eqb_eq in E. destruct (a_handle x =? h') eqn:E'; [apply N.eqb_eq in E'; congruence|reflexivity].
  - destruct (a_handle x =? h'); [reflexivity|exact IH].
Qed.

Lemma value_at_update_cbs st d (f : attr -> attr) h :
  (forall a, a_handle (f a) = a_handle a /\ a_value (f a) = a_value a) ->
  value_at (with_db st (update d f (st_db st))) h = value_at st h.
Proof.
  intros Hf. unfold value_at. cbn [st_db with_db].
  induction (st_db st) as [|x r IH]; cbn [update lookup]; [reflexivity|].
  destruct (a_handle x =? d); cbn [lookup].
  - destruct (Hf x) as [H1 H2]. rewrite H1. destruct (a_handle x =? h); [rewrite H2; reflexivity|reflexivity].
  - destruct (a_handle x =? h); [reflexivity|exact IH].
Qed.

Lemma value_at_update_ne st h0 x h : h <> h0 ->
  value_at (with_db st (update h0 (fun a => set_value a x) (st_db st))) h = value_at st h.
Proof. intros Hne. unfold value_at. cbn [st_db with_db]. rewrite lookup_update_ne; auto. Qed.

Definition protected (st : state) (h : N) : Prop := is_value_handle st h = true /\ value_may_write st h = false.

Lemma protected_static st st' h : same_static st st' -> protected st h -> protected st' h.
Proof.
  intros Hs [H1 H2]. split.
  - unfold is_value_handle in *. destruct Hs as (Hd & _). pose proof (lookup_static _ _ h Hd) as L.
    destruct (lookup h (st_db st)) as [a|]; [|discriminate]. destruct (lookup h (st_db st')) as [a'|]; [|contradiction].
    destruct L as (_ & Hk & _). rewrite <- Hk. exact H1.
  - rewrite (value_may_write_static _ _ _ Hs). exact H2.
Qed.

Lemma hook_assigns_inv hk h : hook_assigns hk h = false ->
  act_target (ha_read (h_acts hk)) h = false /\ act_target (ha_write (h_acts hk)) h = false
  /\ act_target (ha_written (h_acts hk)) h = false
  /\ act_target (ha_sub (h_acts hk)) h = false /\ act_target (ha_unsub (h_acts hk)) h = false.
Proof.
  unfold hook_assigns. intros H. repeat (apply orb_false_iff in H; destruct H as [H ?]). repeat split; assumption.
Qed.

Lemma app_set_keeps_val st d v hk h : d + 1 <> h -> value_at (r_state (app_set st d v hk)) h = value_at st h.
Proof.
  intros Hne.
  assert (Hdb : forall st1, app_db st d v st1 -> value_at st1 h = value_at st h).
  { intros st1 [->|(a & _ & _ & ->)]; [reflexivity|]. apply value_at_update_ne. auto. }
  assert (Hn : forall s1 id o mk vh x, value_at (r_state (notify_via s1 id o mk vh x)) h = value_at s1 h).
  { intros. unfold value_at. rewrite notify_via_db. reflexivity. }
  destruct (app_set_shape st d v hk) as [st1 H|st1 id H|st1 id H]; cbn [r_state done]; rewrite ?Hn; apply Hdb, H.
Qed.

Lemma hook_act_keeps_val st hk act o st1 pd res h :
  hook_act st hk act o = (st1, pd, res) -> act_target act h = false -> value_at st1 h = value_at st h.
Proof.
  unfold hook_act. destruct act as [[d v]|]; intros E Ht; inversion E; subst; [|reflexivity].
  apply app_set_keeps_val. cbn [act_target] in Ht. apply N.eqb_neq in Ht. exact Ht.
Qed.

Lemma post_hook_keeps_val st hk act o out h :
  act_target act h = false -> value_at (r_state (post_hook st hk act o out)) h = value_at st h.
Proof.
  intros Ht. unfold post_hook. destruct (hook_act st hk act o) as [[st1 pd] res] eqn:E.
  pose proof (hook_act_keeps_val _ _ _ _ _ _ _ h E Ht) as H. destruct res as [o'|]; exact H.
Qed.

Lemma read_value_answer_keeps_val st hk op opa h0 mk normal h :
  act_target (ha_read (h_acts hk)) h = false ->
  value_at (r_state (read_value_answer st hk op opa h0 mk normal)) h = value_at st h.
Proof.
  intros Ht. unfold read_value_answer. destruct (hook_act st hk (ha_read (h_acts hk)) (h_read hk)) as [[st1 pd] res] eqn:E.
  pose proof (hook_act_keeps_val _ _ _ _ _ _ _ h E Ht) as H. destruct res as [o'|]; [|exact H].
  destruct o' as [|x| | | | |g1 g2 g3|]; cbn [r_state done prepend]; try exact H; rewrite hook_error_state; exact H.
Qed.

Lemma read_req_keeps_val st hk h0 h : act_target (ha_read (h_acts hk)) h = false ->
  value_at (r_state (h_read_req V_fixed st hk h0)) h = value_at st h.
Proof.
  intros Ht. unfold h_read_req. cbn [fx_read_default V_fixed].
  destruct (h0 =? 0); [reflexivity|].
  destruct (lookup h0 (st_db st)) as [a|]; [|reflexivity].
  destruct (a_kind a); try reflexivity.
  destruct (read_denied st h0); [reflexivity|apply read_value_answer_keeps_val, Ht].
Qed.

Lemma read_blob_keeps_val st hk h0 off h : act_target (ha_read (h_acts hk)) h = false ->
  value_at (r_state (h_read_blob V_fixed st hk h0 off)) h = value_at st h.
Proof.
  intros Ht. unfold h_read_blob, blob_value_branch. cbn [fx_blob V_fixed].
  destruct (h0 =? 0); [reflexivity|].
  destruct (lookup h0 (st_db st)) as [a|]; [|reflexivity].
  destruct (a_kind a);
    repeat match goal with
    | |- context [read_denied st h0] => destruct (read_denied st h0)
    | |- context [off <? ?x] => destruct (off <? x)
    | |- context [off =? ?x] => destruct (off =? x)
    end; try reflexivity; apply read_value_answer_keeps_val, Ht.
Qed.

Lemma write_value_keeps st hk op opa h0 val rsp h :
  h <> h0 -> hook_assigns hk h = false ->
  value_at (r_state (write_value st hk op opa h0 val rsp)) h = value_at st h.
Proof.
  intros Hne Ha. apply hook_assigns_inv in Ha as (_ & T1 & T2 & _).
  unfold write_value. cbv zeta.
  dha ha_write st1 pd1 res1 E1. pose proof (hook_act_keeps_val _ _ _ _ _ _ _ h E1 T1) as V1.
  destruct res1 as [o1|]; [|exact V1].
  destruct o1 as [|x| | | | |g1 g2 g3|]; try (cbn [r_state prepend]; rewrite hook_error_state; exact V1).
  - rewrite post_hook_keeps_val by exact T2. rewrite value_at_update_ne by exact Hne. exact V1.
  - rewrite post_hook_keeps_val by exact T2. rewrite value_at_update_ne by exact Hne. exact V1.
  - destruct rsp; [exact V1|]. cbn [r_state prepend]. rewrite hook_error_state. exact V1.
Qed.

Lemma cccd_effects_keeps st hk h0 newv record out h :
  h <> h0 -> hook_assigns hk h = false ->
  value_at (r_state (cccd_effects st hk h0 newv record out)) h = value_at st h.
Proof.
  intros Hne Ha. apply hook_assigns_inv in Ha as (_ & _ & _ & T5 & T6). unfold cccd_effects.
  pose proof (value_at_update_ne st h0 newv h Hne) as E1.
  assert (E2 : forall d n i, value_at (with_db (with_db st (update h0 (fun a => set_value a newv) (st_db st)))
                  (update d (fun c => set_cbs c (n c) (i c)) (update h0 (fun a => set_value a newv) (st_db st)))) h = value_at st h).
  { intros. rewrite <- E1.
    apply (value_at_update_cbs (with_db st (update h0 (fun a => set_value a newv) (st_db st))) d (fun c => set_cbs c (n c) (i c)) h).
    intros. split; reflexivity. }
  destruct (un_le16_2 newv) as [cfg|]; [|exact E1].
  destruct (owner_decl h0 (st_db st) None) as [d|]; [|exact E1].
  destruct (cfg =? 1).
  { destruct record; rewrite post_hook_keeps_val by exact T5; apply (E2 d (fun _ => Some (i_id (st_cur st))) a_icb). }
  destruct (cfg =? 2).
  { destruct record; rewrite post_hook_keeps_val by exact T5; apply (E2 d a_ncb (fun _ => Some (i_id (st_cur st)))). }
  destruct (cfg =? 0); [|exact E1].
  rewrite post_hook_keeps_val by exact T6. apply (E2 d (fun _ => None) (fun _ => None)).
Qed.

Lemma write_gen_keeps st hk is_cmd h0 val h :
  protected st h -> hook_assigns hk h = false ->
  value_at (r_state (h_write_gen V_fixed st hk is_cmd h0 val)) h = value_at st h.
Proof.
  intros [Hv Hw] Hha. unfold h_write_gen. cbn [fx_write_default fx_sub_record V_fixed].
  destruct (h0 =? 0); [reflexivity|].
  destruct (lookup h0 (st_db st)) as [a|] eqn:El; [|reflexivity].
  destruct (a_kind a) eqn:K; try (destruct is_cmd; reflexivity).
  - destruct (write_denied st h0 E_NOT_FOUND) eqn:E; [reflexivity|].
    apply write_value_keeps; [|exact Hha]. intros ->. apply write_denied_spec in E. congruence.
  - match goal with |- context [if ?b then cccd_effects _ _ _ _ _ _ else _] => destruct b end; [|reflexivity].
    apply cccd_effects_keeps; [|exact Hha]. intros ->. unfold is_value_handle in Hv. rewrite El, K in Hv. discriminate.
Qed.

Lemma apply_writes_keeps h0 ws h : h <> h0 -> forall db, lookup h (fst (apply_writes h0 ws db)) = lookup h db.
Proof.
  intros Hne. induction ws as [|[off val] r IH]; intros db; cbn [apply_writes]; [reflexivity|].
  destruct (lookup h0 db) as [a|]; [|reflexivity].
  destruct (nlen (a_value a) <? off); [reflexivity|].
  rewrite IH. apply lookup_update_ne; auto.
Qed.

Lemma exec_loop_keeps h q : forall st, protected st h ->
  match exec_loop V_fixed st q with
  | inl r => value_at (r_state r) h = value_at st h
  | inr st' => value_at st' h = value_at st h
  end.
Proof.
  induction q as [|[h0 ws] q IH]; intros st Hp; cbn [exec_loop]; [reflexivity|].
  cbn [fx_exec_perm V_fixed].
  destruct (lookup h0 (st_db st)) as [a|]; [|reflexivity].
  destruct (a_kind a); try (apply IH; exact Hp).
  destruct (write_denied st h0 E_INVALID_HANDLE) eqn:E; [reflexivity|].
  assert (Hne : h <> h0). { intros ->. apply write_denied_spec in E. destruct Hp as [_ Hp]. congruence. }
  pose proof (apply_writes_keeps h0 ws h Hne (st_db st)) as Ek.
  pose proof (apply_writes_static h0 ws (st_db st)) as Es.
  destruct (apply_writes h0 ws (st_db st)) as [db' ok]. cbn [fst] in *.
  assert (Ev : value_at (with_db st db') h = value_at st h) by (unfold value_at; cbn [st_db with_db]; rewrite Ek; reflexivity).
  destruct ok.
  - specialize (IH (with_db st db') (protected_static _ _ _ (same_static_db st db' Es) Hp)).
    destruct (exec_loop V_fixed (with_db st db') q); rewrite IH; exact Ev.
  - exact Ev.
Qed.

Lemma locked_keeps v st body h :
  value_at (r_state (body (with_lock st true))) h = value_at (with_lock st true) h ->
  value_at (r_state (locked v st body)) h = value_at st h.
Proof.
  intros H. unfold locked. destruct (tx_locked st); [reflexivity|].
  destruct (r_exc (body (with_lock st true))) as [[]|]; exact H.
Qed.

(** the value of a characteristic changes across a request only if the client may write it (or a
    hook of the application assigns it itself) *)
Lemma write_needs_permission st r hk h :
  is_value_handle st h = true -> value_may_write st h = false -> hook_assigns hk h = false ->
  value_at (fst (server_step st r hk)) h = value_at st h.
Proof.
  intros Hv Hw Hha. assert (Hp : protected (with_lock st true) h) by (split; assumption).
  pose proof (hook_assigns_inv hk h Hha) as (T1 & _).
  unfold server_step, server_step_v. cbn [fst].
  destruct r; cbn [handle fx_rbt128 V_fixed]; rewrite ?unparsed_state; try reflexivity; try apply locked_keeps.
  - unfold h_mtu. cbn [r_state done]. destruct (23 <=? mtu); reflexivity.
  - rewrite find_info_state. reflexivity.
  - rewrite fbtv_state. reflexivity.
  - rewrite read_by_type_state. reflexivity.
  - rewrite read_by_type_state. reflexivity.
  - apply read_req_keeps_val, T1.
  - apply read_blob_keeps_val, T1.
  - destruct hs; [rewrite unparsed_state; reflexivity|]. apply locked_keeps. reflexivity.
  - rewrite read_by_group_state. reflexivity.
  - apply write_gen_keeps; [exact Hp|exact Hha].
  - apply write_gen_keeps; [exact Hp|exact Hha].
  - unfold h_prepare. destruct (lookup h0 _) as [a0|]; [destruct (a_kind a0)|]; reflexivity.
  - unfold h_execute. cbn [fx_exec_clear fx_exec_flags V_fixed].
    destruct (flags =? 0); [reflexivity|]. destruct (flags =? 1); [|reflexivity].
    pose proof (exec_loop_keeps h (i_queues (st_cur (with_lock st true))) _ Hp) as H.
    destruct (exec_loop V_fixed (with_lock st true) (i_queues (st_cur (with_lock st true)))); exact H.
  - reflexivity.
Qed.

(** * Non-interference: every handler commutes with the erasure of unreadable values *)

Section NI2.
Variable S : N -> bool.
Notation er := (er S).
Notation view := (view S).

Lemma relabel_map_state r st : r_state r = st -> relabel r (view st) = map_state view r.
Proof. intros <-. reflexivity. Qed.

(** storing a value at a handle outside S commutes with the view *)
Lemma store_view st h x : S h = false ->
  with_db (view st) (update h (fun a => set_value a x) (st_db (view st)))
  = view (with_db st (update h (fun a => set_value a x) (st_db st))).
Proof.
  intros Hs. unfold Model.view at 3. cbn [st_db with_db].
  rewrite <- update_er by (intros a <-; apply er_set_value_public; exact Hs).
  reflexivity.
Qed.

Lemma cbs_view st d (n i : attr -> option N) :
  (forall a, n (er a) = n a) -> (forall a, i (er a) = i a) ->
  with_db (view st) (update d (fun c => set_cbs c (n c) (i c)) (st_db (view st)))
  = view (with_db st (update d (fun c => set_cbs c (n c) (i c)) (st_db st))).
Proof.
  intros Hn Hi. unfold Model.view at 3. cbn [st_db with_db].
  rewrite <- update_er by (intros a _; rewrite er_set_cbs, Hn, Hi; reflexivity).
  reflexivity.
Qed.

Lemma hook_error_view st op opa h o : hook_error (view st) op opa h o = map_state view (hook_error st op opa h o).
Proof. destruct o as [|x| | | | |g1 g2 g3|]; reflexivity. Qed.

Definition ni_ok (st : state) : Prop := sorted_from 0 (st_db st) = true /\ secret_ok st S.

Lemma ni_ok_static st st' : same_static st st' -> ni_ok st -> ni_ok st'.
Proof.
  intros Hs [H1 H2]. split; [|eapply secret_ok_static; eauto].
  destruct Hs as (Hd & _). rewrite <- (static_sorted _ _ Hd). exact H1.
Qed.

Lemma acts_avoid_inv hk : acts_avoid S hk = true ->
  act_avoids S (ha_read (h_acts hk)) = true /\ act_avoids S (ha_write (h_acts hk)) = true
  /\ act_avoids S (ha_written (h_acts hk)) = true
  /\ act_avoids S (ha_sub (h_acts hk)) = true /\ act_avoids S (ha_unsub (h_acts hk)) = true.
Proof. unfold acts_avoid. cbv zeta. intros H. repeat (apply andb_true_iff in H as [H ?]). repeat split; assumption. Qed.

Lemma post_hook_view st hk act o out : ni_ok st -> act_avoids S act = true ->
  post_hook (view st) hk act o out = map_state view (post_hook st hk act o out).
Proof.
  intros [Hs Hsec] Ha. unfold post_hook. rewrite (hook_act_view S st Hs Hsec hk act o Ha).
  destruct (hook_act st hk act o) as [[st1 pd] res]. destruct res as [o'|]; reflexivity.
Qed.

Lemma write_value_view st hk op opa h val rsp : S h = false -> ni_ok st -> acts_avoid S hk = true ->
  write_value (view st) hk op opa h val rsp = map_state view (write_value st hk op opa h val rsp).
Proof.
  intros Hsh Hok Ha. apply acts_avoid_inv in Ha as (_ & A1 & A2 & _).
  destruct Hok as [Hs Hsec]. unfold write_value. cbv zeta.
  rewrite (hook_act_view S st Hs Hsec hk _ (h_write hk) A1).
  destruct (hook_act st hk (ha_write (h_acts hk)) (h_write hk)) as [[st1 pd1] res1] eqn:E1.
  pose proof (ni_ok_static _ _ (hook_act_static _ _ _ _ _ _ _ E1) (conj Hs Hsec)) as Hok1.
  destruct res1 as [o1|]; [|reflexivity].
  destruct o1 as [|x| | | | |g1 g2 g3|]; try (rewrite hook_error_view; reflexivity).
  - rewrite (store_view st1 h val Hsh).
    apply post_hook_view; [apply (ni_ok_static _ _ (store_static st1 h val) Hok1)|exact A2].
  - rewrite (store_view st1 h x Hsh).
    apply post_hook_view; [apply (ni_ok_static _ _ (store_static st1 h x) Hok1)|exact A2].
  - destruct rsp; [reflexivity|]. rewrite hook_error_view. reflexivity.
Qed.

Lemma cccd_effects_view st hk h newv record out : S h = false -> ni_ok st -> acts_avoid S hk = true ->
  cccd_effects (view st) hk h newv record out = map_state view (cccd_effects st hk h newv record out).
Proof.
  intros Hs Hok Ha. apply acts_avoid_inv in Ha as (_ & _ & _ & A5 & A6). unfold cccd_effects.
  rewrite (store_view st h newv Hs).
  change (st_db (view st)) with (map er (st_db st)). rewrite owner_decl_er.
  destruct (un_le16_2 newv) as [cfg|]; [|reflexivity].
  destruct (owner_decl h (st_db st) None) as [d|]; [|reflexivity].
  set (st1 := with_db st (update h (fun a => set_value a newv) (st_db st))).
  change (update h (fun a => set_value a newv) (map er (st_db st))) with (update h (fun a => set_value a newv) (st_db (view st))).
  assert (Edb : update h (fun a => set_value a newv) (st_db (view st)) = st_db (view st1)).
  { pose proof (store_view st h newv Hs) as E. apply (f_equal st_db) in E. exact E. }
  rewrite Edb.
  change (i_id (st_cur (view st))) with (i_id (st_cur st)).
  assert (Hok1 : ni_ok st1) by (apply (ni_ok_static _ _ (store_static st h newv) Hok)).
  assert (Hcb : forall f subs, (forall c, static_eq c (f c)) ->
            ni_ok (with_subs (with_db st1 (update d f (st_db st1))) subs)).
  { intros f subs Hf. apply (ni_ok_static st1); [|exact Hok1]. split; [|auto]. apply update_static, Hf. }
  destruct (cfg =? 1).
  { rewrite (cbs_view st1 d (fun _ => Some (i_id (st_cur st))) a_icb) by (intros; rewrite ?er_icb; reflexivity).
    destruct record;
      repeat match goal with |- context [with_subs (view ?x) ?l] => change (with_subs (view x) l) with (view (with_subs x l)) end;
      (apply post_hook_view; [|exact A5]);
      first [apply (Hcb (fun c => set_cbs c (Some (i_id (st_cur st))) (a_icb c))); intros; apply set_cbs_static
            |apply (ni_ok_static st1); [split; [apply update_static; intros; apply set_cbs_static|auto]|exact Hok1]]. }
  destruct (cfg =? 2).
  { rewrite (cbs_view st1 d a_ncb (fun _ => Some (i_id (st_cur st)))) by (intros; rewrite ?er_ncb; reflexivity).
    destruct record;
      repeat match goal with |- context [with_subs (view ?x) ?l] => change (with_subs (view x) l) with (view (with_subs x l)) end;
      (apply post_hook_view; [|exact A5]);
      first [apply (Hcb (fun c => set_cbs c (a_ncb c) (Some (i_id (st_cur st))))); intros; apply set_cbs_static
            |apply (ni_ok_static st1); [split; [apply update_static; intros; apply set_cbs_static|auto]|exact Hok1]]. }
  destruct (cfg =? 0); [|reflexivity].
  rewrite (cbs_view st1 d (fun _ => None) (fun _ => None)) by reflexivity.
  repeat match goal with |- context [with_subs (view ?x) ?l] => change (with_subs (view x) l) with (view (with_subs x l)) end.
  apply post_hook_view; [|exact A6]. apply (Hcb (fun c => set_cbs c None None)). intros; apply set_cbs_static.
Qed.

Lemma write_gen_view st hk is_cmd h val :
  ni_ok st -> acts_avoid S hk = true -> S h && value_may_write st h = false ->
  h_write_gen V_fixed (view st) hk is_cmd h val = map_state view (h_write_gen V_fixed st hk is_cmd h val).
Proof.
  intros Hok Ha Hal. pose proof Hok as [Hsorted Hsec]. unfold h_write_gen. cbn [fx_write_default fx_sub_record V_fixed].
  destruct (h =? 0); [reflexivity|].
  change (st_db (view st)) with (map er (st_db st)). rewrite lookup_er.
  destruct (lookup h (st_db st)) as [a|] eqn:El; cbn [option_map]; [|reflexivity].
  rewrite er_kind. destruct (a_kind a) eqn:K; try (destruct is_cmd; reflexivity).
  - rewrite write_denied_view. destruct (write_denied st h E_NOT_FOUND) eqn:E; [reflexivity|].
    apply write_value_view; try assumption. apply write_denied_spec in E. rewrite E, andb_true_r in Hal. exact Hal.
  - assert (Hs : S h = false).
    { destruct (S h) eqn:Es; [|reflexivity]. destruct (Hsec h Es) as [_ H2]. specialize (H2 a El). congruence. }
    assert (Ea : er a = a) by (apply er_public; apply lookup_in in El as [_ ->]; exact Hs).
    rewrite Ea.
    match goal with |- context [if ?b then cccd_effects _ _ _ _ _ _ else _] => destruct b end; [|reflexivity].
    apply cccd_effects_view; assumption.
Qed.

Lemma prepare_view st h off val : h_prepare (view st) h off val = map_state view (h_prepare st h off val).
Proof.
  unfold h_prepare. change (st_db (view st)) with (map er (st_db st)). rewrite lookup_er.
  destruct (lookup h (st_db st)) as [a|]; cbn [option_map]; [rewrite er_kind; destruct (a_kind a)|]; reflexivity.
Qed.

Lemma unparsed_view st o : unparsed (view st) o = map_state view (unparsed st o).
Proof. unfold unparsed. destruct (req_opcode o); reflexivity. Qed.

Lemma apply_writes_view h ws : S h = false -> forall db,
  apply_writes h ws (map er db) = (map er (fst (apply_writes h ws db)), snd (apply_writes h ws db)).
Proof.
  intros Hs. induction ws as [|[off val] r IH]; intros db; cbn [apply_writes]; [reflexivity|].
  rewrite lookup_er. destruct (lookup h db) as [a|] eqn:El; cbn [option_map]; [|reflexivity].
  assert (Ea : er a = a) by (apply er_public; apply lookup_in in El as [_ ->]; exact Hs).
  rewrite Ea. destruct (nlen (a_value a) <? off); [reflexivity|].
  rewrite update_er by (intros x <-; apply er_set_value_public; exact Hs).
  apply IH.
Qed.

Lemma exec_loop_view q : forall st,
  (forall x, In x q -> S (fst x) && value_may_write st (fst x) = false) ->
  match exec_loop V_fixed (view st) q, exec_loop V_fixed st q with
  | inl r', inl r => r' = map_state view r
  | inr s', inr s => s' = view s
  | _, _ => False
  end.
Proof.
  induction q as [|[h ws] q IH]; intros st Hq; cbn [exec_loop]; [reflexivity|].
  cbn [fx_exec_perm V_fixed].
  change (st_db (view st)) with (map er (st_db st)). rewrite lookup_er.
  destruct (lookup h (st_db st)) as [a|] eqn:El; cbn [option_map]; [|reflexivity].
  rewrite er_kind.
  assert (Hq' : forall x, In x q -> S (fst x) && value_may_write st (fst x) = false) by (intros; apply Hq; right; assumption).
  destruct (a_kind a); try (apply IH; exact Hq').
  rewrite write_denied_view. destruct (write_denied st h E_INVALID_HANDLE) eqn:E; [reflexivity|].
  assert (Hs : S h = false).
  { specialize (Hq (h, ws) (or_introl eq_refl)). cbn [fst] in Hq. apply write_denied_spec in E. rewrite E, andb_true_r in Hq. exact Hq. }
  rewrite (apply_writes_view h ws Hs).
  pose proof (apply_writes_static h ws (st_db st)) as Es.
  destruct (apply_writes h ws (st_db st)) as [db' ok]. cbn [fst snd] in *.
  destruct ok; [|reflexivity].
  change (with_db (view st) (map er db')) with (view (with_db st db')).
  apply IH. intros x Hx. rewrite (value_may_write_static st (with_db st db') (fst x) (same_static_db st db' Es)).
  apply Hq'. exact Hx.
Qed.

Lemma execute_view st f :
  queue_clean st S ->
  h_execute V_fixed (view st) f = map_state view (h_execute V_fixed st f).
Proof.
  intros Hq. unfold h_execute. cbn [fx_exec_clear fx_exec_flags V_fixed].
  destruct (f =? 0); [reflexivity|]. destruct (f =? 1); [|reflexivity].
  change (i_queues (st_cur (view st))) with (i_queues (st_cur st)).
  pose proof (exec_loop_view (i_queues (st_cur st)) st Hq) as H.
  destruct (exec_loop V_fixed (view st) (i_queues (st_cur st))) as [r'|s'],
           (exec_loop V_fixed st (i_queues (st_cur st))) as [r|s]; try contradiction; subst; reflexivity.
Qed.

Lemma locked_view st (body : state -> hres) :
  body (with_lock (view st) true) = map_state view (body (with_lock st true)) ->
  locked V_fixed (view st) body = map_state view (locked V_fixed st body).
Proof.
  intros H. unfold locked. change (tx_locked (view st)) with (tx_locked st).
  destruct (tx_locked st); [reflexivity|]. rewrite H. cbn [r_exc r_state r_out map_state].
  destruct (r_exc (body (with_lock st true))) as [[]|]; reflexivity.
Qed.

(** the whole dispatch commutes with the view *)
Lemma handle_view st r hk :
  wf_state st = true -> secret_ok st S -> queue_clean st S -> ni_allowed st S r = true ->
  acts_avoid S hk = true ->
  handle V_fixed (view st) r hk = map_state view (handle V_fixed st r hk).
Proof.
  intros Hwf Hsec Hq Hal Ha.
  assert (Hs' : sorted_from 0 (st_db (with_lock st true)) = true) by (apply (db_sorted st Hwf)).
  assert (Hsec' : secret_ok (with_lock st true) S) by exact Hsec.
  assert (Hok' : ni_ok (with_lock st true)) by (split; assumption).
  pose proof (acts_avoid_inv hk Ha) as (A1 & _).
  destruct r; cbn [handle fx_rbt128 V_fixed]; try reflexivity; try apply locked_view;
    change (with_lock (view st) true) with (view (with_lock st true)).
  - unfold h_mtu. destruct (23 <=? mtu); reflexivity.
  - rewrite (find_info_view S _ s e). apply relabel_map_state, find_info_state.
  - rewrite (fbtv_view S _ Hs' Hsec'). apply relabel_map_state, fbtv_state.
  - rewrite (read_by_type_view S _ s e). apply relabel_map_state, read_by_type_state.
  - rewrite (read_by_type_view S _ s e). apply relabel_map_state, read_by_type_state.
  - apply (read_req_view S _ Hs' Hsec' hk h A1).
  - apply (read_blob_view S _ Hs' Hsec' hk h off A1).
  - destruct hs; [apply unparsed_view|]. apply locked_view. reflexivity.
  - rewrite (read_by_group_view S _ s e). apply relabel_map_state, read_by_group_state.
  - apply write_gen_view; try assumption. cbn [ni_allowed] in Hal. apply negb_true_iff in Hal. exact Hal.
  - apply write_gen_view; try assumption. cbn [ni_allowed] in Hal. apply negb_true_iff in Hal. exact Hal.
  - apply prepare_view.
  - apply execute_view. exact Hq.
  - reflexivity.
  - apply unparsed_view.
Qed.

End NI2.

(** * Sessions *)

Definition qh (st : state) : list N := map fst (i_queues (st_cur st)).

Lemma hook_act_qh st hk act o st1 pd res : hook_act st hk act o = (st1, pd, res) -> qh st1 = qh st.
Proof.
  intros E. destruct (hook_act_spec _ _ _ _ _ _ _ E) as (F & _). unfold qh. rewrite (fr_queues _ _ F). reflexivity.
Qed.

Lemma post_hook_qh st hk act o out : qh (r_state (post_hook st hk act o out)) = qh st.
Proof.
  unfold post_hook. destruct (hook_act st hk act o) as [[st1 pd] res] eqn:E.
  pose proof (hook_act_qh _ _ _ _ _ _ _ E) as H. destruct res as [o'|]; exact H.
Qed.

Lemma read_value_answer_qh st hk op opa h mk normal : qh (r_state (read_value_answer st hk op opa h mk normal)) = qh st.
Proof.
  unfold read_value_answer. destruct (hook_act st hk (ha_read (h_acts hk)) (h_read hk)) as [[st1 pd] res] eqn:E.
  pose proof (hook_act_qh _ _ _ _ _ _ _ E) as H. destruct res as [o'|]; [|exact H].
  destruct o' as [|x| | | | |g1 g2 g3|]; cbn [r_state done prepend]; try exact H; rewrite hook_error_state; exact H.
Qed.

Lemma read_req_qh st hk h : qh (r_state (h_read_req V_fixed st hk h)) = qh st.
Proof.
  unfold h_read_req. cbn [fx_read_default V_fixed].
  destruct (h =? 0); [reflexivity|].
  destruct (lookup h (st_db st)) as [a|]; [|reflexivity].
  destruct (a_kind a); try reflexivity.
  destruct (read_denied st h); [reflexivity|apply read_value_answer_qh].
Qed.

Lemma read_blob_qh st hk h off : qh (r_state (h_read_blob V_fixed st hk h off)) = qh st.
Proof.
  unfold h_read_blob, blob_value_branch. cbn [fx_blob V_fixed].
  destruct (h =? 0); [reflexivity|].
  destruct (lookup h (st_db st)) as [a|]; [|reflexivity].
  destruct (a_kind a);
    repeat match goal with
    | |- context [read_denied st h] => destruct (read_denied st h)
    | |- context [off <? ?x] => destruct (off <? x)
    | |- context [off =? ?x] => destruct (off =? x)
    end; try reflexivity; apply read_value_answer_qh.
Qed.

Lemma write_value_qh st hk op opa h val rsp : qh (r_state (write_value st hk op opa h val rsp)) = qh st.
Proof.
  unfold write_value. cbv zeta.
  dha ha_write st1 pd1 res1 E1. pose proof (hook_act_qh _ _ _ _ _ _ _ E1) as Q1.
  destruct res1 as [o1|]; [|exact Q1].
  destruct o1 as [|x| | | | |g1 g2 g3|]; try (cbn [r_state prepend]; rewrite hook_error_state; exact Q1).
  - rewrite post_hook_qh. exact Q1.
  - rewrite post_hook_qh. exact Q1.
  - destruct rsp; [exact Q1|]. cbn [r_state prepend]. rewrite hook_error_state. exact Q1.
Qed.

Lemma cccd_effects_qh st hk h newv record out : qh (r_state (cccd_effects st hk h newv record out)) = qh st.
Proof.
  unfold cccd_effects.
  destruct (un_le16_2 newv) as [cfg|]; [|reflexivity].
  destruct (owner_decl h (st_db st) None) as [d|]; [|reflexivity].
  destruct (cfg =? 1); [destruct record; rewrite post_hook_qh; reflexivity|].
  destruct (cfg =? 2); [destruct record; rewrite post_hook_qh; reflexivity|].
  destruct (cfg =? 0); [rewrite post_hook_qh; reflexivity|reflexivity].
Qed.

Lemma write_gen_qh st hk is_cmd h val : qh (r_state (h_write_gen V_fixed st hk is_cmd h val)) = qh st.
Proof.
  unfold h_write_gen. cbn [fx_write_default fx_sub_record V_fixed].
  destruct (h =? 0); [reflexivity|].
  destruct (lookup h (st_db st)) as [a|]; [|reflexivity].
  destruct (a_kind a); try (destruct is_cmd; reflexivity).
  - destruct (write_denied st h E_NOT_FOUND); [reflexivity|apply write_value_qh].
  - match goal with |- context [if ?b then cccd_effects _ _ _ _ _ _ else _] => destruct b end;
      [apply cccd_effects_qh|reflexivity].
Qed.

Lemma queue_add_qh h off val q : incl (map fst (queue_add h off val q)) (h :: map fst q).
Proof.
  induction q as [|[h' l] r IH]; cbn [queue_add map fst].
  - intros x [<-|[]]. left. reflexivity.
  - destruct (h' =? h) eqn:E; cbn [map fst].
    + intros x Hx. right. exact Hx.
    + intros x [<-|Hx]; [right; left; reflexivity|]. destruct (IH x Hx) as [<-|Hin]; [left; reflexivity|right; right; exact Hin].
Qed.

Lemma exec_loop_qh q : forall st,
  match exec_loop V_fixed st q with
  | inl r => qh (r_state r) = []
  | inr st' => qh st' = qh st
  end.
Proof.
  induction q as [|[h ws] q IH]; intros st; cbn [exec_loop]; [reflexivity|].
  cbn [fx_exec_perm V_fixed].
  destruct (lookup h (st_db st)) as [a|]; [|reflexivity].
  destruct (a_kind a); try apply IH.
  destruct (write_denied st h E_INVALID_HANDLE); [reflexivity|].
  destruct (apply_writes h ws (st_db st)) as [db' ok]. destruct ok; [|reflexivity].
  specialize (IH (with_db st db')). destruct (exec_loop V_fixed (with_db st db') q); exact IH.
Qed.

Lemma locked_qh_incl v st body extra :
  incl (qh (r_state (body (with_lock st true)))) (extra ++ qh st) ->
  incl (qh (r_state (locked v st body))) (extra ++ qh st).
Proof.
  intros H. unfold locked. destruct (tx_locked st); [apply incl_appr, incl_refl|].
  destruct (r_exc (body (with_lock st true))) as [[]|]; exact H.
Qed.

Definition prep_handle (r : att_request) : list N := match r with PrepareWrite h _ _ => [h] | _ => [] end.

Lemma handle_qh st r hk : incl (qh (r_state (handle V_fixed st r hk))) (prep_handle r ++ qh st).
Proof.
  destruct r; cbn [handle fx_rbt128 V_fixed prep_handle]; rewrite ?unparsed_state; try apply incl_refl; try apply locked_qh_incl;
    change (qh st) with (qh (with_lock st true)).
  - unfold h_mtu. destruct (23 <=? mtu); apply incl_refl.
  - rewrite find_info_state. apply incl_refl.
  - rewrite fbtv_state. apply incl_refl.
  - rewrite read_by_type_state. apply incl_refl.
  - rewrite read_by_type_state. apply incl_refl.
  - rewrite read_req_qh. apply incl_refl.
  - rewrite read_blob_qh. apply incl_refl.
  - destruct hs; [rewrite unparsed_state; apply incl_refl|]. unfold locked. destruct (tx_locked st); apply incl_refl.
  - rewrite read_by_group_state. apply incl_refl.
  - rewrite write_gen_qh. apply incl_refl.
  - rewrite write_gen_qh. apply incl_refl.
  - unfold h_prepare. destruct (lookup h _) as [a0|]; [|apply incl_appr, incl_refl].
    destruct (a_kind a0); try (apply incl_appr, incl_refl).
    cbn [r_state done]. unfold qh. cbn. apply queue_add_qh.
  - unfold h_execute. cbn [fx_exec_clear fx_exec_flags V_fixed].
    destruct (flags =? 0); [intros x []|]. destruct (flags =? 1); [|apply incl_refl].
    pose proof (exec_loop_qh (i_queues (st_cur (with_lock st true))) (with_lock st true)) as H.
    destruct (exec_loop V_fixed (with_lock st true) (i_queues (st_cur (with_lock st true)))).
    + rewrite H. intros x [].
    + intros x []. 
  - apply incl_refl.
Qed.

Section NI3.
Variable S : N -> bool.
Notation view := (view S).

Lemma queue_clean_qh st : queue_clean st S <-> (forall h, In h (qh st) -> S h && value_may_write st h = false).
Proof.
  unfold queue_clean, qh. split.
  - intros H h Hin. apply in_map_iff in Hin as (q & <- & Hq). apply H, Hq.
  - intros H q Hq. apply H. apply in_map. exact Hq.
Qed.

Lemma queue_clean_step st r hk :
  queue_clean st S -> ni_allowed st S r = true -> queue_clean (r_state (handle V_fixed st r hk)) S.
Proof.
  intros Hq Hal. apply queue_clean_qh. intros h Hin.
  rewrite (value_may_write_static _ _ h (handle_static st r hk)).
  apply handle_qh in Hin. apply in_app_or in Hin as [Hin|Hin].
  - destruct r; cbn [prep_handle] in Hin; try contradiction. destruct Hin as [<-|[]].
    cbn [ni_allowed] in Hal. apply negb_true_iff in Hal. exact Hal.
  - apply (proj1 (queue_clean_qh st) Hq). exact Hin.
Qed.

Lemma er_static a : static_eq a (er S a).
Proof. unfold er. destruct (S _); [apply set_value_static|apply static_eq_refl]. Qed.
Lemma static_eq_sym a b : static_eq a b -> static_eq b a.
Proof. unfold static_eq. intuition congruence. Qed.
Lemma static_db_sym d1 d2 : static_db d1 d2 -> static_db d2 d1.
Proof. induction 1; constructor; [apply static_eq_sym|]; assumption. Qed.
Lemma static_db_map_er db : static_db db (map (er S) db).
Proof. induction db; constructor; [apply er_static|assumption]. Qed.

Lemma view_eq_static st1 st2 : view st1 = view st2 -> same_static st1 st2.
Proof.
  intros E. split; [|split].
  - eapply static_db_trans; [apply static_db_map_er|].
    assert (Ed : map (er S) (st_db st1) = map (er S) (st_db st2)) by (apply (f_equal st_db) in E; exact E).
    rewrite Ed. apply static_db_sym, static_db_map_er.
  - apply (f_equal st_enc) in E. cbn in E. congruence.
  - apply (f_equal st_auth) in E. cbn in E. congruence.
Qed.

Lemma ni_allowed_static st st' r : same_static st st' -> ni_allowed st' S r = ni_allowed st S r.
Proof. intros Hs. destruct r; cbn [ni_allowed]; try reflexivity; rewrite (value_may_write_static _ _ _ Hs); reflexivity. Qed.

Lemma queue_clean_static st st' : same_static st st' -> st_cur st' = st_cur st -> queue_clean st S -> queue_clean st' S.
Proof.
  intros Hs Hc Hq q Hin. rewrite Hc in Hin. rewrite (value_may_write_static _ _ _ Hs). apply Hq, Hin.
Qed.

(** Two states that differ only in values of characteristics the client may not read answer every
    session without an authorised write to such a characteristic identically. *)
Lemma non_interference (s : session) : forall st1 st2,
  wf_state st1 = true -> wf_state st2 = true ->
  view st1 = view st2 -> secret_ok st1 S -> queue_clean st1 S ->
  inputs_ok st1 s -> session_allowed st1 S s ->
  responses st1 s = responses st2 s.
Proof.
  induction s as [|[r hk] t IH]; intros st1 st2 W1 W2 Ev Sec Qc Hin Hal; cbn [responses]; [reflexivity|].
  cbn [inputs_ok session_allowed fst snd] in *. destruct Hin as (Hr & Hh & Hin). destruct Hal as (Ha & Haa & Hal).
  pose proof (view_eq_static _ _ Ev) as Hs.
  assert (Ecur : st_cur st2 = st_cur st1) by (apply (f_equal st_cur) in Ev; cbn in Ev; congruence).
  assert (Sec2 : secret_ok st2 S) by (eapply secret_ok_static; eauto).
  assert (Qc2 : queue_clean st2 S) by (eapply queue_clean_static; eauto).
  assert (Ha2 : ni_allowed st2 S r = true) by (rewrite (ni_allowed_static _ _ _ Hs); exact Ha).
  assert (Hr2 : wf_request (mtu_of st2) r = true) by (unfold mtu_of; rewrite Ecur; exact Hr).
  pose proof (handle_view S st1 r hk W1 Sec Qc Ha Haa) as V1.
  pose proof (handle_view S st2 r hk W2 Sec2 Qc2 Ha2 Haa) as V2.
  rewrite Ev in V1. rewrite V2 in V1.
  unfold server_step, server_step_v, session_step, server_step, server_step_v. cbn [fst snd].
  f_equal.
  - apply (f_equal r_out) in V1. cbn in V1. congruence.
  - apply IH.
    + apply (step_wf st1 r hk W1 Hr Hh).
    + apply (step_wf st2 r hk W2 Hr2 Hh).
    + apply (f_equal r_state) in V1. cbn in V1. congruence.
    + eapply secret_ok_static; [apply handle_static|exact Sec].
    + apply queue_clean_step; assumption.
    + exact Hin.
    + exact Hal.
Qed.

End NI3.

(** * Notifications only while subscribed *)

Lemma owner_decl_static d1 d2 h : static_db d1 d2 -> forall cur, owner_decl h d1 cur = owner_decl h d2 cur.
Proof.
  induction 1 as [|a b r1 r2 E _ IH]; intros cur; cbn [owner_decl]; [reflexivity|].
  destruct E as (Hh & Hk & _). rewrite <- Hh, <- Hk. destruct (a_handle a =? h); [reflexivity|apply IH].
Qed.

Lemma find_static (p1 p2 : attr -> bool) d1 d2 : Forall2 (fun a b => static_eq a b /\ p1 a = p2 b) d1 d2 ->
  option_map a_handle (find p1 d1) = option_map a_handle (find p2 d2).
Proof.
  induction 1 as [|a b r1 r2 [E P] _ IH]; cbn [find]; [reflexivity|].
  rewrite <- P. destruct (p1 a); [|exact IH]. destruct E as (Hh & _). cbn. rewrite Hh. reflexivity.
Qed.

Lemma cccd_handle_static d1 d2 d : static_db d1 d2 -> cccd_handle d1 d = cccd_handle d2 d.
Proof.
  intros E. unfold cccd_handle. apply find_static.
  assert (G : forall l1 l2, static_db l1 l2 ->
            Forall2 (fun a b => static_eq a b /\
              (kind_eqb (a_kind a) KCccd && match owner_decl (a_handle a) d1 None with Some o => o =? d | None => false end)
              = (kind_eqb (a_kind b) KCccd && match owner_decl (a_handle b) d2 None with Some o => o =? d | None => false end)) l1 l2).
  { induction 1 as [|a b r1 r2 Eab _ IHl]; constructor; [|exact IHl]. split; [exact Eab|].
    destruct Eab as (Hh & Hk & _). rewrite <- Hh, <- Hk, (owner_decl_static _ _ _ E). reflexivity. }
  apply G, E.
Qed.

Lemma lookup_update_eq h f db : (forall a, a_handle (f a) = a_handle a) ->
  lookup h (update h f db) = option_map f (lookup h db).
Proof.
  intros Hf. induction db as [|x r IH]; cbn [update lookup]; [reflexivity|].
  destruct (a_handle x =? h) eqn:E; cbn [lookup].
  - rewrite Hf, E. reflexivity.
  - rewrite E. exact IH.
Qed.

(** the found CCCD really is a CCCD owned by [d] *)
(** configuration of a characteristic is not affected by changing a value that is not its CCCD's *)
Lemma cfg_of_update db d h f :
  sorted_from 0 db = true ->
  (forall a, static_eq a (f a)) ->
  (cccd_handle db d = Some h -> forall a, lookup h db = Some a -> a_value (f a) = a_value a) ->
  cfg_of (update h f db) d = cfg_of db d.
Proof.
  intros Hs Hf Hv. unfold cfg_of.
  rewrite <- (cccd_handle_static db (update h f db) d (update_static h f db Hf)).
  destruct (cccd_handle db d) as [hc|] eqn:Ec; [|reflexivity].
  assert (Hfh : forall a, a_handle (f a) = a_handle a) by (intros a; destruct (Hf a) as (Hh & _); auto).
  destruct (N.eq_dec hc h) as [->|Hne].
  - rewrite lookup_update_eq by exact Hfh. destruct (lookup h db) as [a|] eqn:El; [|reflexivity].
    cbn [option_map]. rewrite (Hv eq_refl a eq_refl). reflexivity.
  - rewrite lookup_update_ne by auto. reflexivity.
Qed.

(** reference-table invariant *)
Definition cb_set (a : attr) : bool :=
  match a_ncb a, a_icb a with None, None => false | _, _ => true end.

Record sub_inv (st : state) (t : sub_table) : Prop := {
  si_owner : forall h a, lookup h (st_db st) = Some a -> a_kind a = KCccd ->
                exists d, owner_decl h (st_db st) None = Some d;
  si_unique : forall h a d, lookup h (st_db st) = Some a -> a_kind a = KCccd ->
                owner_decl h (st_db st) None = Some d -> cccd_handle (st_db st) d = Some h;
  si_disc : st_connected st = false -> forall d c, lookup d (st_db st) = Some c -> cb_set c = false;
  si_sub : forall d c, lookup d (st_db st) = Some c -> cb_set c = true ->
             In d (i_subscribed (st_cur st)) /\ cfg_of (st_db st) d = Some (sub_get t d) }.

Lemma sub_get_set t d v d' : sub_get (sub_set t d v) d' = if d =? d' then v else sub_get t d'.
Proof. reflexivity. Qed.

(** changing only values of attributes that are not CCCDs keeps the invariant *)
Lemma sub_inv_values st t db' :
  wf_state st = true -> sub_inv st t ->
  static_db (st_db st) db' ->
  (forall h a, lookup h (st_db st) = Some a ->
     exists a', lookup h db' = Some a' /\ a_ncb a' = a_ncb a /\ a_icb a' = a_icb a
                /\ (a_kind a = KCccd -> a_value a' = a_value a)) ->
  sub_inv (with_db st db') t.
Proof.
  intros Hwf [Ow U D Sb] Es Hl.
  assert (Hcfg : forall d, cfg_of db' d = cfg_of (st_db st) d).
  { intros d. unfold cfg_of. rewrite <- (cccd_handle_static _ _ d Es).
    destruct (cccd_handle (st_db st) d) as [hc|] eqn:Ec; [|reflexivity].
    destruct (cccd_handle_spec _ _ _ Ec) as (x & Hin & Hh & Hk & _).
    pose proof (sorted_in_lookup _ 0 x (db_sorted st Hwf) Hin) as Lx. rewrite Hh in Lx.
    destruct (Hl hc x Lx) as (a' & La' & _ & _ & Hv). rewrite Lx, La', (Hv Hk). reflexivity. }
  assert (Hback : forall h a', lookup h db' = Some a' ->
            exists a, lookup h (st_db st) = Some a /\ a_ncb a' = a_ncb a /\ a_icb a' = a_icb a /\ a_kind a' = a_kind a).
  { intros h a' La'. pose proof (lookup_static _ _ h Es) as L. rewrite La' in L.
    destruct (lookup h (st_db st)) as [a|] eqn:La; [|contradiction].
    destruct (Hl h a La) as (a'' & La'' & H1 & H2 & _). rewrite La' in La''. inversion La''; subst.
    destruct L as (_ & Hk & _). exists a. auto. }
  constructor; cbn [st_db with_db st_connected st_cur].
  - intros h a' La' Hk. destruct (Hback h a' La') as (a & La & _ & _ & Hka).
    rewrite <- (owner_decl_static _ _ h Es). apply (Ow h a La). congruence.
  - intros h a' d La' Hk Ho. destruct (Hback h a' La') as (a & La & _ & _ & Hka).
    rewrite <- (cccd_handle_static _ _ d Es). apply (U h a d La); [congruence|].
    rewrite (owner_decl_static _ _ h Es). exact Ho.
  - intros Hc d c' Lc'. destruct (Hback d c' Lc') as (c & Lc & Hn & Hi & _).
    unfold cb_set. rewrite Hn, Hi. apply (D Hc d c Lc).
  - intros d c' Lc' Hcb. destruct (Hback d c' Lc') as (c & Lc & Hn & Hi & _).
    assert (Hcb0 : cb_set c = true) by (unfold cb_set in *; rewrite <- Hn, <- Hi; exact Hcb).
    destruct (Sb d c Lc Hcb0) as [H1 H2]. split; [exact H1|]. rewrite Hcfg. exact H2.
Qed.

(** values-only changes *)
Definition vo (db db' : db_t) : Prop :=
  static_db db db' /\
  forall h a, lookup h db = Some a ->
    exists a', lookup h db' = Some a' /\ a_ncb a' = a_ncb a /\ a_icb a' = a_icb a
               /\ (a_kind a = KCccd -> a_value a' = a_value a).

Lemma vo_refl db : vo db db.
Proof. split; [apply static_db_refl|]. intros h a H. exists a. auto. Qed.

Lemma vo_trans d1 d2 d3 : vo d1 d2 -> vo d2 d3 -> vo d1 d3.
Proof.
  intros [S1 L1] [S2 L2]. split; [eapply static_db_trans; eauto|].
  intros h a Ha. destruct (L1 h a Ha) as (a' & Ha' & N1 & I1 & V1).
  destruct (L2 h a' Ha') as (a'' & Ha'' & N2 & I2 & V2).
  exists a''. repeat split; try congruence.
  intros K. rewrite V2, V1; auto.
  pose proof (lookup_static _ _ h S1) as L. rewrite Ha, Ha' in L. destruct L as (_ & Hk & _). congruence.
Qed.

Lemma vo_update_value db h x a0 : lookup h db = Some a0 -> a_kind a0 <> KCccd ->
  vo db (update h (fun a => set_value a x) db).
Proof.
  intros H0 Hk. split; [apply update_static; intros; apply set_value_static|].
  intros h' a Ha. destruct (N.eq_dec h' h) as [->|Hne].
  - rewrite lookup_update_eq by reflexivity. rewrite Ha. cbn [option_map].
    exists (set_value a x). repeat split. intros K. rewrite H0 in Ha. inversion Ha; subst. contradiction.
  - rewrite lookup_update_ne by auto. exists a. auto.
Qed.

Definition keeps (st st' : state) : Prop :=
  vo (st_db st) (st_db st') /\ st_connected st' = st_connected st
  /\ i_subscribed (st_cur st') = i_subscribed (st_cur st) /\ i_id (st_cur st') = i_id (st_cur st).

Lemma keeps_refl st : keeps st st.
Proof. split; [apply vo_refl|auto]. Qed.
Lemma keeps_trans a b c : keeps a b -> keeps b c -> keeps a c.
Proof. intros (V1 & C1 & S1 & I1) (V2 & C2 & S2 & I2). split; [eapply vo_trans; eauto|]. repeat split; congruence. Qed.

Lemma sub_inv_keeps st st' t : wf_state st = true -> keeps st st' -> sub_inv st t -> sub_inv st' t.
Proof.
  intros Hwf ([Es Hl] & Hc & Hs & _) Hi.
  pose proof (sub_inv_values st t (st_db st') Hwf Hi Es Hl) as [Ow U D Sb].
  constructor; cbn [st_db with_db st_connected st_cur] in *.
  - exact Ow.
  - exact U.
  - intros H. apply D. congruence.
  - intros d c Lc Hcb. rewrite Hs. apply (Sb d c Lc Hcb).
Qed.

Lemma store_keeps st h x a0 : lookup h (st_db st) = Some a0 -> a_kind a0 = KValue ->
  keeps st (with_db st (update h (fun a => set_value a x) (st_db st))).
Proof.
  intros H0 Hk. split; [|auto]. cbn [st_db with_db]. eapply vo_update_value; eauto. rewrite Hk. discriminate.
Qed.


Lemma notify_via_keeps st id o mk vh val : keeps st (r_state (notify_via st id o mk vh val)).
Proof.
  pose proof (notify_via_frame st id o mk vh val) as F.
  split; [rewrite notify_via_db; apply vo_refl|].
  split; [apply (fr_conn _ _ F)|]. split; [apply (fr_subs _ _ F)|apply (fr_id _ _ F)].
Qed.

Lemma app_set_db_keeps st d val :
  keeps st (with_db st (match lookup (d + 1) (st_db st) with
                        | Some v => if kind_eqb (a_kind v) KValue
                                    then update (d + 1) (fun a => set_value a val) (st_db st) else st_db st
                        | None => st_db st end)).
Proof.
  destruct (lookup (d + 1) (st_db st)) as [v|] eqn:E; [|split; [apply vo_refl|auto]].
  destruct (kind_eqb (a_kind v) KValue) eqn:K; [|split; [apply vo_refl|auto]].
  apply (store_keeps st (d + 1) val v E). destruct (a_kind v); try discriminate. reflexivity.
Qed.

Lemma app_set_keeps st d val hk : keeps st (r_state (app_set st d val hk)).
Proof.
  assert (Hdb : forall st1, app_db st d val st1 -> keeps st st1).
  { intros st1 [->|(a & Ha & Hk & ->)]; [apply keeps_refl|apply (store_keeps st (d + 1) val a Ha Hk)]. }
  destruct (app_set_shape st d val hk) as [st1 H|st1 id H|st1 id H]; cbn [r_state done]; [apply Hdb, H| |];
    (eapply keeps_trans; [apply Hdb, H|apply notify_via_keeps]).
Qed.

Lemma is_rsp_notif_ok st t p : is_rsp p = true -> notif_ok st t p = true.
Proof. destruct p; cbn; intros; try reflexivity; discriminate. Qed.

Lemma notif_ok_conn st st' t p : st_connected st' = st_connected st -> notif_ok st' t p = notif_ok st t p.
Proof. intros E. destruct p; cbn; try reflexivity; rewrite E; reflexivity. Qed.

Lemma notify_via_pdu st id o mk vh val p :
  In p (r_out (notify_via st id o mk vh val)) -> exists x, p = mk vh x.
Proof.
  unfold notify_via. destruct (find_inst st id) as [i|]; [|intros []].
  destruct (i_proc_locked i); [intros []|].
  destruct o as [|y| | | | |g1 g2 g3|]; cbn; intros H; try contradiction; destruct H as [<-|[]]; eauto.
Qed.

Lemma app_set_notif_ok st t d val hk :
  wf_state st = true -> sub_inv st t ->
  Forall (fun p => notif_ok st t p = true) (r_out (app_set st d val hk)).
Proof.
  intros Hwf Hi. unfold app_set. destruct (lookup d (st_db st)) as [c|] eqn:Lc; [|constructor].
  destruct (a_kind c); try constructor. cbv zeta.
  set (db1 := match lookup (d + 1) (st_db st) with
              | Some v => if kind_eqb (a_kind v) KValue
                          then update (d + 1) (fun a => set_value a val) (st_db st) else st_db st
              | None => st_db st end).
  (* the configuration is not affected by the new value *)
  assert (Hcfg : cfg_of db1 d = cfg_of (st_db st) d).
  { pose proof (sub_inv_keeps st _ t Hwf (app_set_db_keeps st d val) Hi) as Hi1. fold db1 in Hi1.
    destruct (app_set_db_keeps st d val) as ([Es Hl] & _). fold db1 in Es, Hl. cbn [st_db with_db] in Es, Hl.
    unfold cfg_of. rewrite <- (cccd_handle_static _ _ d Es).
    destruct (cccd_handle (st_db st) d) as [hc|] eqn:Ec; [|reflexivity].
    destruct (cccd_handle_spec _ _ _ Ec) as (x & Hin & Hh & Hk & _).
    pose proof (sorted_in_lookup _ 0 x (db_sorted st Hwf) Hin) as Lx. rewrite Hh in Lx.
    destruct (Hl hc x Lx) as (a' & La' & _ & _ & Hv). rewrite Lx, La', (Hv Hk). reflexivity. }
  rewrite Hcfg.
  assert (Hconn : cb_set c = true -> st_connected st = true /\ cfg_of (st_db st) d = Some (sub_get t d)).
  { intros Hcb. split.
    - destruct (st_connected st) eqn:E; [reflexivity|]. rewrite (si_disc _ _ Hi E d c Lc) in Hcb. discriminate.
    - apply (si_sub _ _ Hi d c Lc Hcb). }
  destruct (a_ncb c) as [idn|] eqn:En.
  - destruct (Hconn ltac:(unfold cb_set; rewrite En; reflexivity)) as [Hc Hcf]. rewrite Hcf.
    destruct (has (a_props c) P_NOTIFY && (sub_get t d =? 1) && true) eqn:E1.
    + apply Forall_forall. intros p Hp. apply notify_via_pdu in Hp as (x & ->).
      cbn [notif_ok]. rewrite Hc. replace (d + 1 - 1) with d by lia.
      apply andb_true_iff in E1 as [E1 _]. apply andb_true_iff in E1 as [_ E1]. rewrite E1. reflexivity.
    + destruct (a_icb c) as [idi|] eqn:Ei.
      * destruct (has (a_props c) P_INDICATE && (sub_get t d =? 2) && true) eqn:E2; [|constructor].
        apply Forall_forall. intros p Hp. apply notify_via_pdu in Hp as (x & ->).
        cbn [notif_ok]. rewrite Hc. replace (d + 1 - 1) with d by lia.
        apply andb_true_iff in E2 as [E2 _]. apply andb_true_iff in E2 as [_ E2]. rewrite E2. reflexivity.
      * rewrite andb_false_r. constructor.
  - rewrite andb_false_r.
    destruct (a_icb c) as [idi|] eqn:Ei.
    + destruct (Hconn ltac:(unfold cb_set; rewrite En, Ei; reflexivity)) as [Hc Hcf]. rewrite Hcf.
      destruct (has (a_props c) P_INDICATE && (sub_get t d =? 2) && true) eqn:E2; [|constructor].
      apply Forall_forall. intros p Hp. apply notify_via_pdu in Hp as (x & ->).
      cbn [notif_ok]. rewrite Hc. replace (d + 1 - 1) with d by lia.
      apply andb_true_iff in E2 as [E2 _]. apply andb_true_iff in E2 as [_ E2]. rewrite E2. reflexivity.
    + rewrite andb_false_r. constructor.
Qed.

(** ** hook call sites: the invariant holds on, and every PDU sent meanwhile is allowed *)

Definition inv_res (st0 : state) (t' : sub_table) (r : hres) : Prop :=
  sub_inv (r_state r) t' /\ Forall (fun p => notif_ok st0 t' p = true) (r_out r).

Lemma rsp_notif_ok st t out : Forall (fun p => is_rsp p = true) out -> Forall (fun p => notif_ok st t p = true) out.
Proof. intros H. eapply Forall_impl; [|exact H]. intros p. apply is_rsp_notif_ok. Qed.

Lemma hook_act_inv st t hk act o st1 pd res :
  wf_state st = true -> sub_inv st t -> wf_act act = true -> hook_act st hk act o = (st1, pd, res) ->
  wf_state st1 = true /\ sub_inv st1 t /\ Forall (fun p => notif_ok st t p = true) pd
  /\ st_connected st1 = st_connected st.
Proof.
  intros Hwf Hi Ha E. pose proof (hook_act_wf _ _ _ _ _ _ _ E Hwf Ha) as W.
  unfold hook_act in E. destruct act as [[d v]|]; inversion E; subst; clear E.
  - pose proof (app_set_keeps st d v hk) as K. split; [exact W|]. split; [apply (sub_inv_keeps st _ t Hwf K Hi)|].
    split; [apply app_set_notif_ok; assumption|]. destruct K as (_ & Hc & _). exact Hc.
  - split; [exact W|]. split; [exact Hi|]. split; [constructor|reflexivity].
Qed.

Lemma post_hook_inv st0 st t hk act o out :
  st_connected st = st_connected st0 -> wf_state st = true -> sub_inv st t -> wf_act act = true ->
  Forall (fun p => notif_ok st0 t p = true) out ->
  inv_res st0 t (post_hook st hk act o out).
Proof.
  intros Hc Hwf Hi Ha Ho. unfold post_hook. destruct (hook_act st hk act o) as [[st1 pd] res] eqn:E.
  destruct (hook_act_inv _ _ _ _ _ _ _ _ Hwf Hi Ha E) as (_ & I1 & P1 & _).
  assert (P : Forall (fun p => notif_ok st0 t p = true) (out ++ pd)).
  { apply Forall_app. split; [exact Ho|]. eapply Forall_impl; [|exact P1]. intros p Hp. cbv beta in Hp. rewrite (notif_ok_conn st0 st t p Hc) in Hp.
    exact Hp. }
  destruct res as [o'|]; split; assumption.
Qed.

Lemma hook_error_all_rsp st op opa h o : Forall (fun p => is_rsp p = true) (r_out (hook_error st op opa h o)).
Proof. destruct o as [|x| | | | |g1 g2 g3|]; cbn; repeat constructor. Qed.

Lemma read_value_answer_inv st t hk op opa h (mk : bytes -> att_pdu) normal :
  wf_state st = true -> sub_inv st t -> wf_hooks hk = true -> (forall x, is_rsp (mk x) = true) ->
  inv_res st t (read_value_answer st hk op opa h mk normal).
Proof.
  intros Hwf Hi Hh Hmk. apply wf_hooks_inv in Hh as (_ & _ & _ & _ & Ha). apply wf_acts_inv in Ha as (Ha & _).
  unfold read_value_answer. destruct (hook_act st hk (ha_read (h_acts hk)) (h_read hk)) as [[st1 pd] res] eqn:E.
  destruct (hook_act_inv _ _ _ _ _ _ _ _ Hwf Hi Ha E) as (_ & I1 & P1 & _).
  destruct res as [o'|]; [|split; assumption].
  destruct o' as [|x| | | | |g1 g2 g3|]; cbn [r_state r_out done prepend]; unfold inv_res; cbn [r_state r_out done prepend raise];
    rewrite ?hook_error_state; (split; [exact I1|]); try (apply Forall_app; split; [exact P1|]);
    try (constructor; [apply is_rsp_notif_ok, Hmk|constructor]); try exact P1;
    apply rsp_notif_ok, hook_error_all_rsp.
Qed.

Lemma read_req_inv st t hk h :
  wf_state st = true -> sub_inv st t -> wf_hooks hk = true -> inv_res st t (h_read_req V_fixed st hk h).
Proof.
  intros Hwf Hi Hh. unfold h_read_req. cbn [fx_read_default V_fixed].
  assert (T : forall p, is_rsp p = true -> inv_res st t (done st [p])).
  { intros p Hp. split; [exact Hi|]. constructor; [apply is_rsp_notif_ok, Hp|constructor]. }
  destruct (h =? 0); [apply T; reflexivity|].
  destruct (lookup h (st_db st)) as [a|]; [|apply T; reflexivity].
  destruct (a_kind a); try (apply T; reflexivity).
  destruct (read_denied st h); [apply T; reflexivity|apply read_value_answer_inv; auto].
Qed.

Lemma read_blob_inv st t hk h off :
  wf_state st = true -> sub_inv st t -> wf_hooks hk = true -> inv_res st t (h_read_blob V_fixed st hk h off).
Proof.
  intros Hwf Hi Hh. unfold h_read_blob, blob_value_branch. cbn [fx_blob V_fixed].
  assert (T : forall p, is_rsp p = true -> inv_res st t (done st [p])).
  { intros p Hp. split; [exact Hi|]. constructor; [apply is_rsp_notif_ok, Hp|constructor]. }
  destruct (h =? 0); [apply T; reflexivity|].
  destruct (lookup h (st_db st)) as [a|]; [|apply T; reflexivity].
  destruct (a_kind a);
    repeat match goal with
    | |- context [read_denied st h] => destruct (read_denied st h)
    | |- context [off <? ?x] => destruct (off <? x)
    | |- context [off =? ?x] => destruct (off =? x)
    end; try (apply T; reflexivity); apply read_value_answer_inv; auto.
Qed.

Lemma store_step st t h x :
  wf_state st = true -> sub_inv st t -> option_map a_kind (lookup h (st_db st)) = Some KValue -> wf_bytes x = true ->
  let st' := with_db st (update h (fun a => set_value a x) (st_db st)) in
  wf_state st' = true /\ sub_inv st' t /\ st_connected st' = st_connected st
  /\ option_map a_kind (lookup h (st_db st')) = Some KValue.
Proof.
  intros Hwf Hi Hk Hx. cbv zeta.
  destruct (lookup h (st_db st)) as [a|] eqn:L; [|discriminate]. cbn in Hk. inversion Hk as [Hk'].
  split; [apply (store_value_wf st h a x Hwf L); [rewrite Hk'; discriminate|exact Hx]|].
  split; [apply (sub_inv_keeps st _ t Hwf (store_keeps st h x a L Hk') Hi)|]. split; [reflexivity|].
  rewrite (kinds_same_store st h x h), L. cbn. congruence.
Qed.

Lemma write_value_inv st t hk op opa h val rsp a0 :
  wf_state st = true -> sub_inv st t -> lookup h (st_db st) = Some a0 -> a_kind a0 = KValue ->
  wf_bytes val = true -> wf_hooks hk = true -> Forall (fun p => is_rsp p = true) rsp ->
  inv_res st t (write_value st hk op opa h val rsp).
Proof.
  intros Hwf Hi Hl Hk Hv Hh Hrsp. apply wf_hooks_inv in Hh as (_ & Hw & Hwn & _ & Ha).
  apply wf_acts_inv in Ha as (_ & A1 & A2 & A3 & _).
  assert (K0 : option_map a_kind (lookup h (st_db st)) = Some KValue) by (rewrite Hl; cbn; congruence).
  pose proof (rsp_notif_ok st t rsp Hrsp) as Prsp.
  unfold write_value. cbv zeta.
  dha ha_write st1 pd1 res1 E1.
  destruct (hook_act_inv _ _ _ _ _ _ _ _ Hwf Hi A1 E1) as (W1 & I1 & P1 & C1).
  pose proof (hook_act_kinds _ _ _ _ _ _ _ E1) as Kd1.
  assert (K1 : option_map a_kind (lookup h (st_db st1)) = Some KValue) by (rewrite Kd1; exact K0).
  destruct res1 as [o1|]; [|split; assumption].
  destruct o1 as [|x| | | | |g1 g2 g3|];
    try (unfold inv_res; cbn [r_state r_out prepend]; rewrite hook_error_state; split; [exact I1|];
         apply Forall_app; split; [exact P1|apply rsp_notif_ok, hook_error_all_rsp]).
  - destruct (store_step st1 t h val W1 I1 K1 Hv) as (W2 & I2 & C2 & _).
    apply post_hook_inv; [cbn; congruence|exact W2|exact I2|exact A2|apply Forall_app; split; assumption].
  - rewrite (hook_act_override _ _ _ _ _ _ _ _ E1 eq_refl) in Hw.
    destruct (store_step st1 t h x W1 I1 K1 Hw) as (W2 & I2 & C2 & _).
    apply post_hook_inv; [cbn; congruence|exact W2|exact I2|exact A2|apply Forall_app; split; assumption].
  - destruct rsp; [split; assumption|].
    unfold inv_res; cbn [r_state r_out prepend]; rewrite hook_error_state; split; [exact I1|].
    apply Forall_app; split; [exact P1|apply rsp_notif_ok, hook_error_all_rsp].
Qed.

Lemma apply_writes_vo h ws : forall db a0, lookup h db = Some a0 -> a_kind a0 = KValue ->
  vo db (fst (apply_writes h ws db)).
Proof.
  induction ws as [|[off val] r IH]; intros db a0 H0 Hk; cbn [apply_writes]; [apply vo_refl|].
  rewrite H0. destruct (nlen (a_value a0) <? off); [apply vo_refl|].
  eapply vo_trans.
  - apply (vo_update_value db h (splice (a_value a0) off val) a0 H0). rewrite Hk. discriminate.
  - apply (IH _ (set_value a0 (splice (a_value a0) off val))); [|exact Hk].
    rewrite lookup_update_eq by reflexivity. rewrite H0. reflexivity.
Qed.

Lemma exec_loop_keeps_inv q : forall st,
  match exec_loop V_fixed st q with
  | inl r => keeps st (r_state r)
  | inr st' => keeps st st'
  end.
Proof.
  induction q as [|[h ws] q IH]; intros st; cbn [exec_loop]; [apply keeps_refl|].
  cbn [fx_exec_perm V_fixed].
  destruct (lookup h (st_db st)) as [a|] eqn:El; [|split; [apply vo_refl|auto]].
  destruct (a_kind a) eqn:K; try apply IH.
  destruct (write_denied st h E_INVALID_HANDLE); [split; [apply vo_refl|auto]|].
  pose proof (apply_writes_vo h ws (st_db st) a El K) as V.
  destruct (apply_writes h ws (st_db st)) as [db' ok]. cbn [fst] in V.
  assert (K1 : keeps st (with_db st db')) by (split; [exact V|auto]).
  destruct ok.
  - specialize (IH (with_db st db')). destruct (exec_loop V_fixed (with_db st db') q);
      (eapply keeps_trans; [exact K1|exact IH]).
  - cbn [r_state err done]. split; [exact V|auto].
Qed.

Lemma in_add_sub d l : In d (add_sub d l).
Proof.
  unfold add_sub. destruct (existsb (N.eqb d) l) eqn:E.
  - apply existsb_exists in E as (x & Hx & Hd). apply N.eqb_eq in Hd. subst. exact Hx.
  - apply in_or_app. right. left. reflexivity.
Qed.

Lemma in_add_sub_keep d d' l : In d' l -> In d' (add_sub d l).
Proof. unfold add_sub. destruct (existsb (N.eqb d) l); [auto|]. intros. apply in_or_app. left. assumption. Qed.

Lemma in_remove_sub_keep d d' l : d' <> d -> In d' l -> In d' (remove_sub d l).
Proof.
  intros Hne. induction l as [|x r IH]; cbn; [auto|].
  intros [->|Hin].
  - destruct (d' =? d) eqn:E; [apply N.eqb_eq in E; contradiction|left; reflexivity].
  - destruct (x =? d); [exact Hin|right; apply IH, Hin].
Qed.

Lemma cccd_general st t h newv cfg d (g : attr -> attr) subs' a :
  wf_state st = true -> sub_inv st t -> st_connected st = true ->
  lookup h (st_db st) = Some a -> a_kind a = KCccd ->
  un_le16_2 newv = Some cfg -> owner_decl h (st_db st) None = Some d ->
  (forall c, static_eq c (g c) /\ a_value (g c) = a_value c) ->
  (forall d', d' <> d -> In d' (i_subscribed (st_cur st)) -> In d' subs') ->
  (forall c, lookup d (update h (fun x => set_value x newv) (st_db st)) = Some c ->
             cb_set (g c) = true -> In d subs') ->
  sub_inv (with_subs (with_db st (update d g (update h (fun x => set_value x newv) (st_db st)))) subs')
          (sub_set t d cfg).
Proof.
  intros Hwf [Ow U D Sb] Hc La Ka Hcfg Ho Hg Hkeep Hnew.
  set (db := st_db st). set (db1 := update h (fun x => set_value x newv) db). set (db2 := update d g db1).
  assert (S1 : static_db db db1) by (apply update_static; intros; apply set_value_static).
  assert (S2 : static_db db1 db2) by (apply update_static; intros c; apply Hg).
  assert (S12 : static_db db db2) by (eapply static_db_trans; eauto).
  assert (Hsort : sorted_from 0 db = true) by (apply db_sorted, Hwf).
  assert (Hsort1 : sorted_from 0 db1 = true) by (rewrite <- (static_sorted _ _ S1); exact Hsort).
  assert (Hgh : forall c, a_handle (g c) = a_handle c) by (intros c; destruct (Hg c) as [(Hh & _) _]; auto).
  assert (Hch : cccd_handle db d = Some h) by (apply (U h a d La Ka Ho)).
  (* value stored at h after both updates *)
  assert (Hval : exists x, lookup h db2 = Some x /\ a_value x = newv).
  { assert (L1 : lookup h db1 = Some (set_value a newv)).
    { unfold db1. rewrite lookup_update_eq by reflexivity. unfold db. rewrite La. reflexivity. }
    unfold db2. destruct (N.eq_dec h d) as [E|E].
    - subst d. rewrite lookup_update_eq by exact Hgh. rewrite L1. cbn [option_map]. eexists. split; [reflexivity|].
      destruct (Hg (set_value a newv)) as [_ Hv]. rewrite Hv. reflexivity.
    - rewrite lookup_update_ne by auto. rewrite L1. eexists. split; reflexivity. }
  (* configuration of the other characteristics is unchanged *)
  assert (Hother : forall d', d' <> d -> cfg_of db2 d' = cfg_of db d').
  { intros d' Hne.
    assert (E2 : cfg_of db2 d' = cfg_of db1 d').
    { unfold db2. apply cfg_of_update; [exact Hsort1 | intros c; apply (proj1 (Hg c)) | intros _ c _; apply (proj2 (Hg c))]. }
    rewrite E2. unfold db1. apply cfg_of_update; [exact Hsort | intros; apply set_value_static |].
    intros Hc' a0 _. exfalso. destruct (cccd_handle_spec _ _ _ Hc') as (x0 & _ & _ & _ & Ho').
    fold db in Ho. rewrite Ho in Ho'. inversion Ho'. congruence. }
  (* callbacks of the other attributes are unchanged *)
  assert (Hcbs : forall d' c', d' <> d -> lookup d' db2 = Some c' ->
             exists c, lookup d' db = Some c /\ a_ncb c' = a_ncb c /\ a_icb c' = a_icb c).
  { intros d' c' Hne L2. unfold db2 in L2. rewrite lookup_update_ne in L2 by auto.
    unfold db1 in L2. destruct (N.eq_dec d' h) as [->|Hne2].
    - rewrite lookup_update_eq in L2 by reflexivity. unfold db in L2. rewrite La in L2. inversion L2; subst.
      exists a. auto.
    - rewrite lookup_update_ne in L2 by auto. exists c'. auto. }
  constructor; cbn [st_db with_db with_subs with_cur st_connected st_cur i_subscribed].
  - intros h' a' La' Ka'. fold db2 in La' |- *.
    pose proof (lookup_static _ _ h' S12) as L. fold db in L. rewrite La' in L.
    destruct (lookup h' db) as [a0|] eqn:La0; [|contradiction]. destruct L as (_ & Hk & _).
    rewrite <- (owner_decl_static _ _ h' S12). apply (Ow h' a0 La0). congruence.
  - intros h' a' d' La' Ka' Ho'. fold db2 in La', Ho' |- *.
    rewrite <- (cccd_handle_static _ _ d' S12).
    pose proof (lookup_static _ _ h' S12) as L. fold db in L. rewrite La' in L.
    destruct (lookup h' db) as [a0|] eqn:La0; [|contradiction]. destruct L as (_ & Hk & _).
    apply (U h' a0 d' La0); [congruence|]. fold db. rewrite (owner_decl_static _ _ h' S12). exact Ho'.
  - rewrite Hc. discriminate.
  - intros d' c' Lc' Hcb. fold db2 in Lc' |- *. rewrite sub_get_set.
    destruct (N.eq_dec d' d) as [->|Hne].
    + rewrite N.eqb_refl. split.
      * unfold db2 in Lc'. rewrite lookup_update_eq in Lc' by exact Hgh.
        destruct (lookup d db1) as [c|] eqn:Lc; [|discriminate]. inversion Lc'; subst. apply (Hnew c Lc Hcb).
      * unfold cfg_of. rewrite <- (cccd_handle_static _ _ d S12). fold db. rewrite Hch.
        destruct Hval as (x & Lx & Hx). rewrite Lx, Hx. exact Hcfg.
    + destruct (d =? d') eqn:E; [apply N.eqb_eq in E; congruence|].
      destruct (Hcbs d' c' Hne Lc') as (c & Lc & Hn & Hi).
      assert (Hcb0 : cb_set c = true) by (unfold cb_set in *; rewrite <- Hn, <- Hi; exact Hcb).
      destruct (Sb d' c Lc Hcb0) as [H1 H2]. split; [apply Hkeep; assumption|].
      rewrite (Hother d' Hne). exact H2.
Qed.

Lemma sub_inv_same st st' t :
  st_db st' = st_db st -> st_connected st' = st_connected st ->
  i_subscribed (st_cur st') = i_subscribed (st_cur st) -> sub_inv st t -> sub_inv st' t.
Proof.
  intros Ed Ec Es [Ow U D Sb]. constructor; rewrite ?Ed, ?Ec, ?Es; assumption.
Qed.

Lemma update_id h db : update h (fun c => c) db = db.
Proof. induction db as [|x r IH]; cbn [update]; [reflexivity|]. destruct (a_handle x =? h); [reflexivity|rewrite IH; reflexivity]. Qed.

Lemma un_le16_2_some b : nlen b = 2 -> exists c, un_le16_2 b = Some c.
Proof.
  unfold nlen. destruct b as [|x [|y [|z r]]]; cbn; intros H; try lia. eexists. reflexivity.
Qed.

Lemma lookup_zero db lo : sorted_from lo db = true -> lookup 0 db = None.
Proof.
  revert lo. induction db as [|x r IH]; intros lo H; [reflexivity|]. cbn [sorted_from] in H.
  apply andb_true_iff in H as [H Hr]. apply andb_true_iff in H as [H _]. apply N.ltb_lt in H.
  cbn [lookup]. destruct (a_handle x =? 0) eqn:E; [apply N.eqb_eq in E; lia|]. eapply IH; eauto.
Qed.


Lemma cccd_effects_inv st t hk h newv out a :
  wf_state st = true -> sub_inv st t -> st_connected st = true ->
  lookup h (st_db st) = Some a -> a_kind a = KCccd -> nlen newv = 2 -> wf_bytes newv = true ->
  wf_hooks hk = true -> Forall (fun p => is_rsp p = true) out ->
  inv_res st (match un_le16_2 newv, owner_decl h (st_db st) None return sub_table with
              | Some cfg, Some d => sub_set t d cfg | _, _ => t end)
          (cccd_effects st hk h newv true out).
Proof.
  intros Hwf Hi Hc La Ka Hn Hv Hh Hout. apply wf_hooks_inv in Hh as (_ & _ & _ & _ & Ha).
  apply wf_acts_inv in Ha as (_ & _ & _ & _ & As & Au).
  unfold cccd_effects.
  destruct (un_le16_2_some newv Hn) as (cfg & Hcfg). rewrite Hcfg.
  destruct (si_owner _ _ Hi h a La Ka) as (d & Ho). rewrite Ho.
  pose proof (fun g subs' H1 H2 H3 => cccd_general st t h newv cfg d g subs' a Hwf Hi Hc La Ka Hcfg Ho H1 H2 H3) as G.
  assert (Hc1 : forall c n i, static_eq c (set_cbs c n i) /\ a_value (set_cbs c n i) = a_value c)
    by (intros; split; [apply set_cbs_static|reflexivity]).
  assert (E1 : db_ext (st_db st) (update h (fun a0 => set_value a0 newv) (st_db st))).
  { apply update_ext. intros a' _. apply set_value_ext; [exact Hv|intros _; exact Hn]. }
  pose proof (wf_state_with_db st _ Hwf E1) as W1.
  assert (W2 : forall f subs, (forall c, attr_ext c (f c)) ->
            wf_state (with_subs (with_db (with_db st (update h (fun a0 => set_value a0 newv) (st_db st)))
                              (update d f (update h (fun a0 => set_value a0 newv) (st_db st)))) subs) = true).
  { intros f subs Hf. apply (wf_state_with_db _ _ W1). apply update_ext. intros c _. apply Hf. }
  pose proof (rsp_notif_ok st (sub_set t d cfg) out Hout) as Pout.
  destruct (cfg =? 1).
  { assert (R : sub_inv (with_subs (with_db st (update d (fun c => set_cbs c (Some (i_id (st_cur st))) (a_icb c))
                  (update h (fun x => set_value x newv) (st_db st)))) (add_sub d (i_subscribed (st_cur st)))) (sub_set t d cfg)).
    { apply G; [intros; apply Hc1 | intros; apply in_add_sub_keep; assumption | intros; apply in_add_sub]. }
    apply post_hook_inv; [reflexivity|apply W2; intros; apply set_cbs_ext|exact R|exact As|exact Pout]. }
  destruct (cfg =? 2).
  { assert (R : sub_inv (with_subs (with_db st (update d (fun c => set_cbs c (a_ncb c) (Some (i_id (st_cur st))))
                  (update h (fun x => set_value x newv) (st_db st)))) (add_sub d (i_subscribed (st_cur st)))) (sub_set t d cfg)).
    { apply G; [intros; apply Hc1 | intros; apply in_add_sub_keep; assumption | intros; apply in_add_sub]. }
    apply post_hook_inv; [reflexivity|apply W2; intros; apply set_cbs_ext|exact R|exact As|exact Pout]. }
  destruct (cfg =? 0).
  { assert (R : sub_inv (with_subs (with_db st (update d (fun c => set_cbs c None None)
                  (update h (fun x => set_value x newv) (st_db st)))) (remove_sub d (i_subscribed (st_cur st)))) (sub_set t d cfg)).
    { apply G; [intros; apply Hc1 | intros; apply in_remove_sub_keep; assumption | intros c _ Hcb; discriminate]. }
    apply post_hook_inv; [reflexivity|apply W2; intros; apply set_cbs_ext|exact R|exact Au|exact Pout]. }
  (* other configuration values: stored, no callback change *)
  split; [|exact Pout]. cbn [r_state done].
  assert (R : sub_inv (with_subs (with_db st (update d (fun c => c) (update h (fun x => set_value x newv) (st_db st))))
                                 (i_subscribed (st_cur st))) (sub_set t d cfg)).
  { apply G; [intros; split; [apply static_eq_refl|reflexivity] | auto |].
    intros c Lc Hcb. destruct Hi as [_ _ _ Sb].
    destruct (N.eq_dec d h) as [->|Hne].
    - rewrite lookup_update_eq in Lc by reflexivity. rewrite La in Lc. inversion Lc; subst c.
      apply (Sb h a La). exact Hcb.
    - rewrite lookup_update_ne in Lc by auto. apply (Sb d c Lc Hcb). }
  rewrite update_id in R. eapply sub_inv_same; [| | |exact R]; reflexivity.
Qed.

Lemma write_gen_inv st t hk (is_cmd : bool) h val :
  wf_state st = true -> sub_inv st t -> st_connected st = true -> wf_bytes val = true -> wf_hooks hk = true ->
  inv_res st (match cccd_write st (if is_cmd then WriteCmd h val else Write h val) return sub_table with
              | Some (d, cfg) => sub_set t d cfg | None => t end)
          (h_write_gen V_fixed st hk is_cmd h val).
Proof.
  intros Hwf Hi Hc Hv Hh.
  assert (Ecw : cccd_write st (if is_cmd then WriteCmd h val else Write h val)
          = match lookup h (st_db st) with
            | Some a => match a_kind a with
                        | KCccd => if (nlen val <=? 2) && (negb is_cmd || negb (bytes_eqb val (a_value a)))
                                   then match un_le16_2 (val ++ skipn (length val) (a_value a)), owner_decl h (st_db st) None with
                                        | Some cfg, Some d => Some (d, cfg) | _, _ => None end
                                   else None
                        | _ => None end
            | None => None end) by (destruct is_cmd; reflexivity).
  rewrite Ecw. clear Ecw.
  unfold h_write_gen. cbn [fx_write_default fx_sub_record V_fixed].
  assert (T : forall out, Forall (fun p => is_rsp p = true) out -> inv_res st t (done st out)).
  { intros out Ho. split; [exact Hi|apply rsp_notif_ok, Ho]. }
  assert (Hrsp : Forall (fun p => is_rsp p = true) (if is_cmd then [] else [PWriteRsp])) by (destruct is_cmd; repeat constructor).
  destruct (h =? 0) eqn:E0.
  { apply N.eqb_eq in E0. subst h. rewrite (lookup_zero _ 0 (db_sorted st Hwf)). apply T. repeat constructor. }
  destruct (lookup h (st_db st)) as [a|] eqn:El; [|apply T; repeat constructor].
  destruct (a_kind a) eqn:K; try (destruct is_cmd; apply T; repeat constructor).
  - destruct (write_denied st h E_NOT_FOUND); [apply T; repeat constructor|].
    eapply write_value_inv; eauto.
  - destruct ((nlen val <=? 2) && (negb is_cmd || negb (bytes_eqb val (a_value a)))) eqn:Eb; [|apply T; repeat constructor].
    rewrite orb_true_r.
    assert (Hn : nlen (val ++ skipn (length val) (a_value a)) = 2 /\ wf_bytes (val ++ skipn (length val) (a_value a)) = true).
    { apply andb_true_iff in Eb as [Eb _]. apply N.leb_le in Eb.
      pose proof (wf_attr_value a (lookup_wf _ _ _ (wf_state_attrs _ Hwf) El)) as [Wv Wl]. specialize (Wl K).
      split; [rewrite nlen_app; unfold nlen in *; rewrite skipn_length; lia|].
      rewrite wf_bytes_app. apply andb_true_iff. split; [exact Hv|apply wf_bytes_skipn, Wv]. }
    destruct Hn as [Hn Hwv].
    pose proof (cccd_effects_inv st t hk h (val ++ skipn (length val) (a_value a))
                 (if is_cmd then [] else [PWriteRsp]) a Hwf Hi Hc El K Hn Hwv Hh Hrsp) as R.
    destruct (un_le16_2 (val ++ skipn (length val) (a_value a))); [|exact R].
    destruct (owner_decl h (st_db st) None); exact R.
Qed.

Lemma keeps_lock st st' b : keeps st st' -> keeps st (with_lock st' b).
Proof. intros (V & C & Sb & I). split; [exact V|auto]. Qed.
Lemma keeps_from_lock st st' : keeps (with_lock st true) st' -> keeps st st'.
Proof. intros (V & C & Sb & I). split; [exact V|auto]. Qed.

(** requests whose handlers run no hook: the state changes by values only, the output holds responses only *)
Lemma exec_loop_rsp q : forall st r, exec_loop V_fixed st q = inl r -> Forall (fun p => is_rsp p = true) (r_out r).
Proof.
  induction q as [|[h ws] q IH]; intros st r; cbn [exec_loop]; [discriminate|].
  cbn [fx_exec_perm V_fixed].
  destruct (lookup h (st_db st)) as [a|]; [|intros E; inversion E; repeat constructor].
  destruct (a_kind a); try apply IH.
  destruct (write_denied st h E_INVALID_HANDLE); [intros E; inversion E; repeat constructor|].
  destruct (apply_writes h ws (st_db st)) as [db' ok]. destruct ok; [apply IH|intros E; inversion E; repeat constructor].
Qed.

Definition hookless (r : att_request) : bool :=
  match r with Read _ | ReadBlob _ _ | Write _ _ | WriteCmd _ _ => false | _ => true end.

Lemma hookless_body st r hk :
  hookless r = true ->
  keeps st (r_state (handle V_fixed st r hk)) /\ Forall (fun p => is_rsp p = true) (r_out (handle V_fixed st r hk)).
Proof.
  intros Hr.
  assert (L : forall body, (forall s, keeps s (r_state (body s)) /\ Forall (fun p => is_rsp p = true) (r_out (body s))) ->
              keeps st (r_state (locked V_fixed st body)) /\ Forall (fun p => is_rsp p = true) (r_out (locked V_fixed st body))).
  { intros body H. unfold locked. destruct (tx_locked st); [split; [apply keeps_refl|constructor]|].
    destruct (H (with_lock st true)) as [K O].
    destruct (r_exc (body (with_lock st true))) as [[]|]; cbn [r_state r_out]; (split; [|exact O]);
      try apply keeps_lock; apply keeps_from_lock, K. }
  assert (T : keeps st st /\ Forall (fun p => is_rsp p = true) (@nil att_pdu)) by (split; [apply keeps_refl|constructor]).
  assert (U : forall o, keeps st (r_state (unparsed st o)) /\ Forall (fun p => is_rsp p = true) (r_out (unparsed st o))).
  { intros o. unfold unparsed. destruct (req_opcode o); (split; [apply keeps_refl|repeat constructor]). }
  destruct r; try discriminate Hr; cbn [handle fx_rbt128 V_fixed]; try exact T; try apply U; try apply L; try intros s0.
  - unfold h_mtu. destruct (23 <=? mtu); (split; [split; [apply vo_refl|auto]|repeat constructor]).
  - rewrite find_info_state. split; [apply keeps_refl|]. unfold h_find_info. break; repeat constructor.
  - rewrite fbtv_state. split; [apply keeps_refl|]. unfold h_fbtv. break; repeat constructor.
  - rewrite read_by_type_state. split; [apply keeps_refl|]. unfold h_read_by_type. break; repeat constructor.
  - rewrite read_by_type_state. split; [apply keeps_refl|]. unfold h_read_by_type. break; repeat constructor.
  - destruct hs; [apply U|]. apply L. intros s1. split; [apply keeps_refl|repeat constructor].
  - rewrite read_by_group_state. split; [apply keeps_refl|]. unfold h_read_by_group. break; repeat constructor.
  - unfold h_prepare. destruct (lookup h _) as [a0|]; [destruct (a_kind a0)|]; (split; [split; [apply vo_refl|auto]|repeat constructor]).
  - unfold h_execute. cbn [fx_exec_clear fx_exec_flags V_fixed].
    destruct (flags =? 0); [split; [split; [apply vo_refl|auto]|repeat constructor]|].
    destruct (flags =? 1); [|split; [apply keeps_refl|repeat constructor]].
    pose proof (exec_loop_keeps_inv (i_queues (st_cur s0)) s0) as H.
    destruct (exec_loop V_fixed s0 (i_queues (st_cur s0))) eqn:E; [split; [exact H|eapply exec_loop_rsp; eauto]|].
    cbn [r_state r_out done]. destruct H as (V & C & Sb & I). split; [split; [exact V|auto]|repeat constructor].
  - split; [apply keeps_refl|repeat constructor].
Qed.

Lemma locked_inv st t' body :
  tx_locked st = false -> inv_res (with_lock st true) t' (body (with_lock st true)) ->
  inv_res st t' (locked V_fixed st body).
Proof.
  intros Hl [I O]. unfold locked. rewrite Hl.
  destruct (r_exc (body (with_lock st true))) as [[]|]; (split; [|exact O]); cbn [r_state];
    try (eapply sub_inv_same; [| | |exact I]; reflexivity); exact I.
Qed.

Lemma handle_inv st t r hk :
  wf_state st = true -> sub_inv st t -> st_connected st = true ->
  wf_request (mtu_of st) r = true -> wf_hooks hk = true ->
  inv_res st (ref_step st t (EvReq r hk)) (handle V_fixed st r hk).
Proof.
  intros Hwf Hi Hc Hr Hh. cbn [ref_step]. rewrite Hc. cbn [andb].
  destruct (tx_locked st) eqn:Hl; cbn [negb].
  { (* locked: only the ATT layer itself answers *)
    assert (UI : forall o, inv_res st t (unparsed st o)).
    { intros o. unfold inv_res, unparsed. destruct (req_opcode o); cbn [r_state r_out err done]; (split; [exact Hi|repeat constructor]). }
    destruct r; cbn [handle fx_rbt128 V_fixed]; unfold locked; rewrite ?Hl; try (split; [exact Hi|constructor]); try apply UI.
    destruct hs; [apply UI|split; [exact Hi|constructor]]. }
  assert (Hi' : sub_inv (with_lock st true) t) by (eapply sub_inv_same; [| | |exact Hi]; reflexivity).
  assert (Hwf' : wf_state (with_lock st true) = true) by exact Hwf.
  unfold wf_request in Hr. apply andb_true_iff in Hr as [_ Hr].
  destruct (hookless r) eqn:Hk.
  { assert (Et : match cccd_write st r with Some (d, cfg) => sub_set t d cfg | None => t end = t)
      by (destruct r; try discriminate Hk; reflexivity).
    rewrite Et. destruct (hookless_body st r hk Hk) as [K O].
    split; [apply (sub_inv_keeps st _ t Hwf K Hi)|apply rsp_notif_ok, O]. }
  destruct r; try discriminate Hk; cbn [handle]; apply (locked_inv st _ _ Hl).
  - cbn [cccd_write]. apply read_req_inv; assumption.
  - cbn [cccd_write]. apply read_blob_inv; assumption.
  - apply andb_true_iff in Hr as [_ Hv].
    apply (write_gen_inv (with_lock st true) t hk false h v Hwf' Hi' Hc Hv Hh).
  - apply andb_true_iff in Hr as [_ Hv].
    apply (write_gen_inv (with_lock st true) t hk true h v Hwf' Hi' Hc Hv Hh).
Qed.

Lemma wf_state_same st st' :
  st_db st' = st_db st -> i_mtu (st_cur st') = i_mtu (st_cur st) -> i_queues (st_cur st') = i_queues (st_cur st) ->
  wf_state st = true -> wf_state st' = true.
Proof.
  intros Ed Em Eq H. unfold wf_state, mtu_of, queue_ok in *. rewrite Ed, Em, Eq. exact H.
Qed.

Lemma terminated_ext st : db_ext (st_db st) (st_db (terminated st)).
Proof.
  unfold terminated. cbn [st_db with_db with_subs with_cur].
  induction (st_db st) as [|a r IH]; cbn [map]; constructor; [|exact IH].
  destruct (existsb _ _); [apply set_cbs_ext|apply attr_ext_refl].
Qed.


Lemma step_event_wf st ev : wf_state st = true -> ev_ok st ev = true -> wf_state (r_state (step V_fixed st ev)) = true.
Proof.
  intros Hwf Hok. destruct ev; cbn [step ev_ok] in *.
  - destruct (st_connected st); [|exact Hwf]. apply andb_true_iff in Hok as [H1 H2].
    apply (step_wf st r hk Hwf H1 H2).
  - cbn [r_state done]. destruct (st_connected st); [|exact Hwf]. eapply wf_state_same; [| | |exact Hwf]; reflexivity.
  - apply app_set_wf; assumption.
  - cbn [r_state done]. unfold disconnect. destruct (st_connected st); [|exact Hwf]. cbn [fx_disc_term V_fixed].
    pose proof (wf_state_with_db st _ Hwf (terminated_ext st)) as W.
    eapply wf_state_same; [| | |exact W]; reflexivity.
  - cbn [r_state done]. unfold connect. destruct (st_connected st); [exact Hwf|].
    apply wf_state_inv in Hwf as (H1 & _). apply wf_state_intro; cbn; try assumption; try lia; try reflexivity.
Qed.

(** ** the invariant along histories *)

Lemma sub_inv_disconnected st t t' : st_connected st = false -> sub_inv st t -> sub_inv st t'.
Proof.
  intros Hc [Ow U D Sb]. constructor; try assumption.
  intros d c Lc Hcb. rewrite (D Hc d c Lc) in Hcb. discriminate.
Qed.

Lemma lookup_map_handle (g : attr -> attr) db h : (forall a, a_handle (g a) = a_handle a) ->
  lookup h (map g db) = option_map g (lookup h db).
Proof.
  intros Hg. induction db as [|x r IH]; cbn [map lookup]; [reflexivity|]. rewrite Hg.
  destruct (a_handle x =? h); [reflexivity|exact IH].
Qed.

Lemma map_static (g : attr -> attr) db : (forall a, static_eq a (g a)) -> static_db db (map g db).
Proof. intros Hg. induction db as [|a r IH]; cbn [map]; constructor; [apply Hg|exact IH]. Qed.


Lemma step_inv st t ev :
  wf_state st = true -> sub_inv st t -> ev_ok st ev = true ->
  sub_inv (r_state (step V_fixed st ev)) (ref_step st t ev).
Proof.
  intros Hwf Hi Hok. destruct ev; cbn [step].
  - destruct (st_connected st) eqn:Hc.
    + cbn [ev_ok] in Hok. apply andb_true_iff in Hok as [H1 H2]. apply (handle_inv st t r hk Hwf Hi Hc H1 H2).
    + cbn [ref_step r_state done]. rewrite Hc. exact Hi.
  - cbn [r_state done ref_step]. destruct (st_connected st) eqn:Hc; [|exact Hi].
    eapply sub_inv_same; [| | |exact Hi]; try reflexivity. cbn. congruence.
  - cbn [ref_step]. apply (sub_inv_keeps st _ t Hwf (app_set_keeps st decl v hk) Hi).
  - cbn [r_state done ref_step]. unfold disconnect. destruct (st_connected st) eqn:Hc.
    2:{ apply (sub_inv_disconnected st t [] Hc Hi). }
    cbn [fx_disc_term V_fixed]. destruct Hi as [Ow U D Sb].
    set (g := fun a => if existsb (N.eqb (a_handle a)) (i_subscribed (st_cur st)) then set_cbs a None None else a).
    assert (Hgh : forall a, a_handle (g a) = a_handle a) by (intros; unfold g; destruct (existsb _ _); reflexivity).
    assert (Es : static_db (st_db st) (map g (st_db st))).
    { apply map_static. intros a. unfold g. destruct (existsb _ _); [apply set_cbs_static|apply static_eq_refl]. }
    assert (Hnone : forall d c', lookup d (map g (st_db st)) = Some c' -> cb_set c' = false).
    { intros d c' L. rewrite lookup_map_handle in L by exact Hgh.
      destruct (lookup d (st_db st)) as [c|] eqn:Lc; [|discriminate]. inversion L; subst c'.
      unfold g. destruct (existsb (N.eqb (a_handle c)) (i_subscribed (st_cur st))) eqn:Ex; [reflexivity|].
      destruct (cb_set c) eqn:Hcb; [|reflexivity]. exfalso.
      destruct (Sb d c Lc Hcb) as [Hin _]. apply lookup_in in Lc as [_ Hh].
      assert (existsb (N.eqb (a_handle c)) (i_subscribed (st_cur st)) = true).
      { apply existsb_exists. exists d. split; [exact Hin|]. apply N.eqb_eq. exact Hh. }
      congruence. }
    constructor; cbn [st_db st_connected st_cur terminated with_db with_subs with_cur]; fold g.
    + intros h a' La' Ka'. rewrite <- (owner_decl_static _ _ h Es).
      rewrite lookup_map_handle in La' by exact Hgh. destruct (lookup h (st_db st)) as [a|] eqn:La; [|discriminate].
      inversion La'; subst a'. apply (Ow h a La). unfold g in Ka'. destruct (existsb _ _); exact Ka'.
    + intros h a' d La' Ka' Ho'. rewrite <- (cccd_handle_static _ _ d Es).
      rewrite lookup_map_handle in La' by exact Hgh. destruct (lookup h (st_db st)) as [a|] eqn:La; [|discriminate].
      inversion La'; subst a'. apply (U h a d La); [unfold g in Ka'; destruct (existsb _ _); exact Ka'|].
      rewrite (owner_decl_static _ _ h Es). exact Ho'.
    + intros _. exact Hnone.
    + intros d c' L Hcb. rewrite (Hnone d c' L) in Hcb. discriminate.
  - cbn [r_state done ref_step]. unfold connect. destruct (st_connected st) eqn:Hc; [exact Hi|].
    destruct Hi as [Ow U D Sb]. constructor; cbn [st_db st_connected st_cur]; try assumption.
    + discriminate.
    + intros d c Lc Hcb. rewrite (D Hc d c Lc) in Hcb. discriminate.
Qed.

Lemma step_out_ok st t ev :
  wf_state st = true -> sub_inv st t -> ev_ok st ev = true ->
  Forall (fun p => notif_ok st (ref_step st t ev) p = true) (r_out (step V_fixed st ev)).
Proof.
  intros Hwf Hi Hok. destruct ev; cbn [step].
  - destruct (st_connected st) eqn:Hc; [|constructor].
    cbn [ev_ok] in Hok. apply andb_true_iff in Hok as [H1 H2]. apply (handle_inv st t r hk Hwf Hi Hc H1 H2).
  - constructor.
  - cbn [ref_step]. apply app_set_notif_ok; assumption.
  - constructor.
  - constructor.
Qed.

(** every notification / indication of every history is for a characteristic the client has
    subscribed to during the current connection and not unsubscribed since *)
Lemma notify_only_subscribed evs : forall st t,
  wf_state st = true -> sub_inv st t -> history_inputs_ok st evs -> history_ok st t evs.
Proof.
  induction evs as [|ev r IH]; intros st t Hwf Hi Hin; cbn [history_ok history_inputs_ok] in *; [exact I|].
  destruct Hin as [Hok Hin]. split.
  - apply step_out_ok; assumption.
  - apply IH; [apply step_event_wf; assumption|apply step_inv; assumption|exact Hin].
Qed.

(** the invariant holds initially: no callbacks installed, CCCDs owned and unique *)
Lemma sub_inv_init st :
  wf_state st = true -> cccd_ok (st_db st) = true -> no_callbacks (st_db st) = true -> sub_inv st [].
Proof.
  intros Hwf Hc Hn.
  assert (Hnc : forall d c, lookup d (st_db st) = Some c -> cb_set c = false).
  { intros d c L. apply lookup_in in L as [Hin _]. unfold no_callbacks in Hn. rewrite forallb_forall in Hn.
    specialize (Hn c Hin). unfold cb_set. destruct (a_ncb c), (a_icb c); try discriminate; reflexivity. }
  assert (Hck : forall h a, lookup h (st_db st) = Some a -> a_kind a = KCccd ->
            exists d, owner_decl h (st_db st) None = Some d /\ cccd_handle (st_db st) d = Some h).
  { intros h a L K. apply lookup_in in L as [Hin Hh]. unfold cccd_ok in Hc. rewrite forallb_forall in Hc.
    specialize (Hc a Hin). rewrite K in Hc. cbn [kind_eqb negb orb] in Hc. rewrite Hh in Hc.
    destruct (owner_decl h (st_db st) None) as [d|]; [|discriminate]. exists d. split; [reflexivity|].
    destruct (cccd_handle (st_db st) d) as [hc|]; [|discriminate]. apply N.eqb_eq in Hc. congruence. }
  constructor.
  - intros h a L K. destruct (Hck h a L K) as (d & H1 & _). eauto.
  - intros h a d L K Ho. destruct (Hck h a L K) as (d' & H1 & H2). congruence.
  - intros _. exact Hnc.
  - intros d c L Hcb. rewrite (Hnc d c L) in Hcb. discriminate.
Qed.


(** * Sessions: a value the client may not write survives every session *)
Lemma write_needs_permission_session (s : session) : forall st h,
  is_value_handle st h = true -> value_may_write st h = false ->
  Forall (fun x => hook_assigns (snd x) h = false) s ->
  value_at (fold_left session_step s st) h = value_at st h.
Proof.
  induction s as [|[r hk] t IH]; intros st h Hv Hw Ha; cbn [fold_left]; [reflexivity|].
  inversion Ha as [|x l Ha1 Ha2]; subst. cbn [snd] in Ha1.
  pose proof (handle_static st r hk) as Hs.
  assert (Hp : protected (session_step st (r, hk)) h) by (apply (protected_static st _ h Hs); split; assumption).
  destruct Hp as [Hv' Hw']. rewrite (IH _ h Hv' Hw' Ha2). apply write_needs_permission; assumption.
Qed.

(** * Witnesses *)

Lemma demo_states_ok :
  wf_state demo_state = true /\ wf_state demo_state2 = true
  /\ view demo_S demo_state = view demo_S demo_state2
  /\ cccd_ok demo_db = true /\ no_callbacks demo_db = true.
Proof. vm_compute. auto. Qed.

Lemma demo_secret_ok : secret_ok demo_state demo_S.
Proof.
  intros h Hh. unfold demo_S in Hh. apply N.eqb_eq in Hh. subst h. split; [reflexivity|].
  intros a Ha. vm_compute in Ha. inversion Ha. reflexivity.
Qed.

Lemma demo_queue_clean : queue_clean demo_state demo_S.
Proof. intros q []. Qed.

(** a session probing the secret characteristic (handle 10, write-only) in every way a client can *)
Definition probe_session : session :=
  [ (Read 10, no_hooks); (ReadBlob 10 0, no_hooks); (ReadBlob 10 3, no_hooks); (ReadBlob 10 4, no_hooks);
    (ReadBlob 9 3, no_hooks); (FindByTypeValue 1 65535 10753 [115;101;99], no_hooks);
    (FindByTypeValue 1 65535 10243 [115;101;99], no_hooks); (ReadByType 1 65535 10753, no_hooks);
    (ReadMultiple [10; 4], no_hooks); (PrepareWrite 6 0 [9], no_hooks); (ExecuteWrite 1, no_hooks);
    (Read 6, no_hooks); (Read 4, no_hooks) ].

Lemma probe_session_ok :
  inputs_ok demo_state probe_session /\ session_allowed demo_state demo_S probe_session.
Proof. vm_compute. repeat split. Qed.

Lemma probe_session_fixed :
  responses demo_state probe_session =
  [ [PError 10 10 2]; [PError 12 10 2]; [PError 12 10 2]; [PError 12 10 2]; [PReadBlobRsp [1; 42]];
    [PError 6 1 10]; [PError 6 1 10]; [PError 8 1 10]; [PError 14 10 1]; [PPrepareWriteRsp 6 0 [9]];
    [PError 24 6 3]; [PReadRsp [100]]; [PReadRsp [104; 105]] ].
Proof. vm_compute. reflexivity. Qed.

(** the original code: a session (without the request that wedges it) tells the two states apart
    -- blob offset == length, find by type value on the declaration type -- and lets the client
    modify a read-only characteristic *)
Definition leak_session : session :=
  [ (ReadBlob 10 3, no_hooks); (ReadBlob 10 4, no_hooks);
    (FindByTypeValue 1 65535 10243 [115;101;99], no_hooks);
    (PrepareWrite 6 0 [9], no_hooks); (ExecuteWrite 1, no_hooks); (Read 6, no_hooks) ].

Lemma leak_session_ok :
  inputs_ok demo_state leak_session /\ session_allowed demo_state demo_S leak_session.
Proof. vm_compute. repeat split. Qed.

Lemma leak_session_orig :
  responses_v V_orig demo_state leak_session
  = [ [PReadBlobRsp []]; [PError 12 10 7]; [PFindByTypeValueRsp [(9, 9)]];
      [PPrepareWriteRsp 6 0 [9]]; [PExecuteWriteRsp]; [PReadRsp [9]] ]
  /\ responses_v V_orig demo_state2 leak_session
  = [ [PError 12 10 2]; [PReadBlobRsp []]; [PError 6 1 10];
      [PPrepareWriteRsp 6 0 [9]]; [PExecuteWriteRsp]; [PReadRsp [9]] ].
Proof. vm_compute. split; reflexivity. Qed.

(** original code: value changed without write permission *)
Lemma orig_execute_unchecked :
  let st1 := fst (server_step_v V_orig demo_state (PrepareWrite 6 0 [9]) no_hooks) in
  let st2 := fst (server_step_v V_orig st1 (ExecuteWrite 1) no_hooks) in
  is_value_handle st1 6 = true /\ value_may_write st1 6 = false
  /\ value_at st1 6 = Some [100] /\ value_at st2 6 = Some [9].
Proof. vm_compute. repeat split; reflexivity. Qed.

(** original code: subscription by Write Request, disconnection, then the application changes the
    value: a notification is still emitted *)
Definition sub_disc_history : list event :=
  [ EvReq (Write 7 [1; 0]) no_hooks; EvAppSet 5 [65] no_hooks; EvDisc; EvAppSet 5 [66] no_hooks ].

Lemma orig_notifies_after_disconnect :
  snd (run V_orig demo_state sub_disc_history) = [ [PWriteRsp]; [PNotification 6 [65]]; []; [PNotification 6 [66]] ]
  /\ snd (run V_fixed demo_state sub_disc_history) = [ [PWriteRsp]; [PNotification 6 [65]]; []; [] ].
Proof. vm_compute. split; reflexivity. Qed.

Lemma sub_disc_history_ok : history_inputs_ok demo_state sub_disc_history.
Proof. vm_compute. repeat split. Qed.
