(** C08 — GATT server access control: reference permission model and the statement helpers,
    over the server model of C07 (C07/Model.v, repaired code = [V_fixed]).  No proofs here. *)
From Coq Require Import List NArith Arith Bool.
From Whad Require Import Lib.Bytes C07.Model.
Import ListNotations.
Open Scope N_scope.

(** * Reference permission model: property bit /\ security requirement vs link state *)

(** security requirement bits (1 encryption, 2 authentication, 4 authorization) against the link:
    authorization is never granted by this stack. *)
Definition sec_ok (enc auth : bool) (bits : N) : bool :=
  (negb (has bits S_AUTHN) || auth) && (negb (has bits S_ENC) || enc) && negb (has bits S_AUTHOR).

Definition may_read (enc auth : bool) (c : attr) : bool := readable c && sec_ok enc auth (rsec c).
Definition may_write (enc auth : bool) (c : attr) : bool := writeable c && sec_ok enc auth (wsec c).

(** ... for the characteristic whose VALUE attribute has handle [h] *)
Definition value_may_read (st : state) (h : N) : bool :=
  match lookup (h - 1) (st_db st) with
  | Some c => may_read (st_enc st) (st_auth st) c
  | None => false
  end.
Definition value_may_write (st : state) (h : N) : bool :=
  match lookup (h - 1) (st_db st) with
  | Some c => may_write (st_enc st) (st_auth st) c
  | None => false
  end.

(** * Non-interference *)

(** [S] = a set of handles; [view S st] forgets the values stored at these handles. Two states
    with the same view are "equal except in the values at S". *)
Definition er (S : N -> bool) (a : attr) : attr := if S (a_handle a) then set_value a [] else a.
Definition view (S : N -> bool) (st : state) : state := with_db st (map (er S) (st_db st)).

(** [S] only holds handles of characteristic values that cannot be read over the current link *)
Definition secret_ok (st : state) (S : N -> bool) : Prop :=
  forall h, S h = true ->
    value_may_read st h = false /\ (forall a, lookup h (st_db st) = Some a -> a_kind a = KValue).

(** a request that is NOT an authorised write to a handle of [S] *)
Definition ni_allowed (st : state) (S : N -> bool) (r : att_request) : bool :=
  match r with
  | Write h _ | WriteCmd h _ | PrepareWrite h _ _ => negb (S h && value_may_write st h)
  | _ => true
  end.

(** the hooks of the request do not themselves assign a characteristic of [S] (the application
    changing a compared value is not the client reading it) *)
Definition act_avoids (S : N -> bool) (a : option (N * bytes)) : bool :=
  match a with Some (d, _) => negb (S (d + 1)) | None => true end.
Definition acts_avoid (S : N -> bool) (hk : hook_oracle) : bool :=
  let a := h_acts hk in
  act_avoids S (ha_read a) && act_avoids S (ha_write a) && act_avoids S (ha_written a)
  && act_avoids S (ha_sub a) && act_avoids S (ha_unsub a).

Fixpoint session_allowed (st : state) (S : N -> bool) (s : session) : Prop :=
  match s with
  | [] => True
  | x :: t => ni_allowed st S (fst x) = true /\ acts_avoid S (snd x) = true
              /\ session_allowed (session_step st x) S t
  end.

(** no prepared write pending on an S-handle the client may write *)
Definition queue_clean (st : state) (S : N -> bool) : Prop :=
  forall q, In q (i_queues (st_cur st)) -> S (fst q) && value_may_write st (fst q) = false.

(** the server's answers to a session *)
Fixpoint responses (st : state) (s : session) : list (list att_pdu) :=
  match s with
  | [] => []
  | x :: t => snd (server_step st (fst x) (snd x)) :: responses (session_step st x) t
  end.

(** * Writes *)

(** value stored at handle [h] *)
Definition value_at (st : state) (h : N) : option bytes :=
  match lookup h (st_db st) with Some a => Some (a_value a) | None => None end.
Definition is_value_handle (st : state) (h : N) : bool :=
  match lookup h (st_db st) with Some a => kind_eqb (a_kind a) KValue | None => false end.

(** [h] is the value handle of a characteristic one of the request's hooks assigns itself *)
Definition act_target (a : option (N * bytes)) (h : N) : bool :=
  match a with Some (d, _) => d + 1 =? h | None => false end.
Definition hook_assigns (hk : hook_oracle) (h : N) : bool :=
  let a := h_acts hk in
  act_target (ha_read a) h || act_target (ha_write a) h || act_target (ha_written a) h
  || act_target (ha_sub a) h || act_target (ha_unsub a) h.

(** * Notifications *)

(** reference subscription state: what the client asked for with its LAST accepted write of the
    CCCD of the characteristic declared at [d], during the CURRENT connection.
    0 = nothing, 1 = notifications, 2 = indications. *)
Definition sub_table := list (N * N).
Fixpoint sub_get (t : sub_table) (d : N) : N :=
  match t with [] => 0 | (d', v) :: r => if d' =? d then v else sub_get r d end.
Definition sub_set (t : sub_table) (d v : N) : sub_table := (d, v) :: t.

(** a CCCD write accepted by the server: returns (declaration handle, new configuration) *)
Definition cccd_write (st : state) (r : att_request) : option (N * N) :=
  let go (is_cmd : bool) (h : N) (val : bytes) :=
    match lookup h (st_db st) with
    | Some a =>
        match a_kind a with
        | KCccd =>
            if (nlen val <=? 2) && (negb is_cmd || negb (bytes_eqb val (a_value a))) then
              match un_le16_2 (val ++ skipn (length val) (a_value a)), owner_decl h (st_db st) None with
              | Some cfg, Some d => Some (d, cfg)
              | _, _ => None
              end
            else None
        | _ => None
        end
    | None => None
    end in
  match r with
  | Write h val => go false h val
  | WriteCmd h val => go true h val
  | _ => None
  end.

(** the reference table along a history *)
Definition ref_step (st : state) (t : sub_table) (ev : event) : sub_table :=
  match ev with
  | EvReq r _ =>
      if st_connected st && negb (tx_locked st) then
        match cccd_write st r with Some (d, cfg) => sub_set t d cfg | None => t end
      else t
  | EvDisc => []
  | _ => t
  end.

(** every notification / indication PDU of a step is for a subscribed characteristic *)
Definition notif_ok (st : state) (t : sub_table) (p : att_pdu) : bool :=
  match p with
  | PNotification vh _ => st_connected st && (sub_get t (vh - 1) =? 1)
  | PIndication vh _ => st_connected st && (sub_get t (vh - 1) =? 2)
  | _ => true
  end.

Fixpoint history_ok (st : state) (t : sub_table) (evs : list event) : Prop :=
  match evs with
  | [] => True
  | ev :: r =>
      let x := step V_fixed st ev in
      (* checked against the table AFTER the step: a 'subscribed' hook may update the characteristic
         the client has just subscribed to *)
      Forall (fun p => notif_ok st (ref_step st t ev) p = true) (r_out x)
      /\ history_ok (r_state x) (ref_step st t ev) r
  end.

(** acceptable inputs of a history: well-formed requests / hook outcomes / application values *)
Definition ev_ok (st : state) (ev : event) : bool :=
  match ev with
  | EvReq r hk => wf_request (mtu_of st) r && wf_hooks hk
  | EvAppSet _ v hk => wf_bytes v
  | _ => true
  end.
Fixpoint history_inputs_ok (st : state) (evs : list event) : Prop :=
  match evs with
  | [] => True
  | ev :: r => ev_ok st ev = true /\ history_inputs_ok (r_state (step V_fixed st ev)) r
  end.

(** every CCCD belongs to a characteristic and is that characteristic's only CCCD (implied by the
    structure check of [wf_db]; kept as a directly checkable condition) *)
Definition cccd_ok (db : db_t) : bool :=
  forallb (fun a => negb (kind_eqb (a_kind a) KCccd)
                    || match owner_decl (a_handle a) db None with
                       | Some d => match cccd_handle db d with Some hc => hc =? a_handle a | None => false end
                       | None => false
                       end) db.

(** no callback installed (a profile before any connection) *)
Definition no_callbacks (db : db_t) : bool :=
  forallb (fun a => match a_ncb a, a_icb a with None, None => true | _, _ => false end) db.

(** answers of a given variant of the code (for the witnesses against the original code) *)
Fixpoint responses_v (v : variant) (st : state) (s : session) : list (list att_pdu) :=
  match s with
  | [] => []
  | x :: t => let r := server_step_v v st (fst x) (snd x) in snd r :: responses_v v (fst r) t
  end.

(** the demo database of C07 with another value in the write-only characteristic (handle 10) *)
Definition demo_db2 : db_t := update 10 (fun a => set_value a [1;2;3;4]) demo_db.
Definition demo_state2 : state := init_state demo_db2.
Definition demo_S (h : N) : bool := h =? 10.

(** correspondence entry point of the C08 check: the C07 comparison plus the CCCD hypotheses of
    [C08_notify_only_subscribed] on the generated database *)
Definition check_case8 (c : case_t) : bool :=
  let '(fixed, db, evs, fin) := c in
  check_case c && cccd_ok db && no_callbacks db.
