(** C10 — executable model of GATT discovery: how Profile lays a profile out on handles
    ([serve]), the client enumeration loops of whad/ble/stack/gatt/__init__.py
    (discover_primary_services, discover_characteristics, discover_characteristic_descriptors,
    get_descriptor, discover) and Profile.find_characteristic_end_handle, over the server list
    builders modelled in C09/Model.v (read by group type, read by type, find information).
    Transcribed from the (repaired) code.  No proofs in this file. *)
From Coq Require Import List NArith Arith Bool.
From Whad Require Import Lib.Bytes C09.Model.
Import ListNotations.
Open Scope N_scope.

(** * Profiles and their layout *)

Record desc := { d_cccd : bool; d_uuid : bytes; d_val : bytes }.
Record chr := { c_uuid : bytes; c_props : N; c_val : bytes; c_descs : list desc }.
Record svc := { s_uuid : bytes; s_chrs : list chr }.
Definition profile := list svc.

Definition desc_attr (d : desc) : attr :=
  if d_cccd d then ACccd (d_val d) else ADesc (d_uuid d) (d_val d).

(** Characteristic.handle setter: value at handle+1, descriptors after it *)
Fixpoint serve_descs (h : N) (ds : list desc) : db :=
  match ds with
  | [] => []
  | d :: r => (h, desc_attr d) :: serve_descs (h + 1) r
  end.

Definition chr_size (c : chr) : N := 2 + N.of_nat (length (c_descs c)).

(** Service.handle setter: characteristics one after the other *)
Fixpoint serve_chrs (h : N) (cs : list chr) : db :=
  match cs with
  | [] => []
  | c :: r => (h, ADecl (c_props c) (h + 1) (c_uuid c)) :: (h + 1, AValue (c_uuid c) (c_val c))
              :: serve_descs (h + 2) (c_descs c) ++ serve_chrs (h + chr_size c) r
  end.

Definition chrs_size (cs : list chr) : N := fold_right (fun c n => chr_size c + n) 0 cs.
Definition svc_size (s : svc) : N := 1 + chrs_size (s_chrs s).

(** Profile.add_service: services one after the other from the start handle *)
Fixpoint serve_svcs (h : N) (ss : list svc) : db :=
  match ss with
  | [] => []
  | s :: r => (h, APrimary (s_uuid s) (h + svc_size s - 1)) :: serve_chrs (h + 1) (s_chrs s)
              ++ serve_svcs (h + svc_size s) r
  end.

Definition profile_size (p : profile) : N := fold_right (fun s n => svc_size s + n) 0 p.

Definition serve (p : profile) : db := serve_svcs 1 p.

(** * What discovery rebuilds *)

Record dchr := { dc_handle : N; dc_props : N; dc_vh : N; dc_uuid : bytes; dc_descs : list (N * bytes) }.
Record dsvc := { ds_uuid : bytes; ds_start : N; ds_end : N; ds_chrs : list dchr }.

Definition desc_type (d : desc) : bytes := if d_cccd d then U2902 else d_uuid d.

Fixpoint shape_descs (h : N) (ds : list desc) : list (N * bytes) :=
  match ds with
  | [] => []
  | d :: r => (h, desc_type d) :: shape_descs (h + 1) r
  end.

Fixpoint shape_chrs (h : N) (cs : list chr) : list dchr :=
  match cs with
  | [] => []
  | c :: r => {| dc_handle := h; dc_props := c_props c; dc_vh := h + 1; dc_uuid := c_uuid c;
                 dc_descs := shape_descs (h + 2) (c_descs c) |} :: shape_chrs (h + chr_size c) r
  end.

Fixpoint shape_svcs (h : N) (ss : list svc) : list dsvc :=
  match ss with
  | [] => []
  | s :: r => {| ds_uuid := s_uuid s; ds_start := h; ds_end := h + svc_size s - 1;
                 ds_chrs := shape_chrs (h + 1) (s_chrs s) |} :: shape_svcs (h + svc_size s) r
  end.

(** the served profile with its handles: what the client must rebuild *)
Definition shape (p : profile) : list dsvc := shape_svcs 1 p.

(** * Client enumeration loops *)

Definition result (A : Type) := (outcome A * client * server)%type.

(** [for item in msg: yield PrimaryService(...); handle = item.end; if handle == 0xFFFF: return] *)
Fixpoint group_items (items : list (N * N * bytes)) (handle : N) (acc : list dsvc) : list dsvc * N * bool :=
  match items with
  | [] => (acc, handle, false)
  | (h, e, u) :: r =>
      let acc' := acc ++ [{| ds_uuid := u; ds_start := h; ds_end := e; ds_chrs := [] |}] in
      if N.eqb e 65535 then (acc', e, true) else group_items r e acc'
  end.

(** [discover_primary_services(start)] *)
Fixpoint disc_primary (fuel : nat) (handle : N) (acc : list dsvc) (c : client) (s : server)
  : result (list dsvc) :=
  match fuel with
  | O => (OutOfFuel, c, s)
  | S f =>
      match xfer c s (QGroup handle 65535) with
      | None => (Raise EOther, c, s)
      | Some (c1, s1) =>
          match wait acc_group c1 with
          | (None, c2) => (Raise ETimeout, c2, s1)
          | (Some (RErr _ _ code), c2) =>
              if N.eqb code E_ATTR_NOT_FOUND then (Ok acc, c2, s1)
              else (Raise (EAtt code), c2, s1)            (* repaired: the error is raised *)
          | (Some (RGroup items), c2) =>
              let '(acc', h', stop) := group_items items handle acc in
              if stop then (Ok acc', c2, s1) else disc_primary f (h' + 1) acc' c2 s1
          | (Some _, c2) => (Raise EOther, c2, s1)
          end
      end
  end.

(** [for item in msg: ... service.add_characteristic(charac); handle = charac.handle+2] *)
Fixpoint type_items (items : list (N * N * N * bytes)) (handle : N) (acc : list dchr) : list dchr * N :=
  match items with
  | [] => (acc, handle)
  | (h, p, vh, u) :: r =>
      type_items r (h + 2)
                 (acc ++ [{| dc_handle := h; dc_props := p; dc_vh := vh; dc_uuid := u; dc_descs := [] |}])
  end.

(** [discover_characteristics(service)]: while handle <= service.end_handle *)
Fixpoint disc_chars (fuel : nat) (handle endh : N) (acc : list dchr) (c : client) (s : server)
  : result (list dchr) :=
  match fuel with
  | O => (OutOfFuel, c, s)
  | S f =>
      if N.ltb endh handle then (Ok acc, c, s) else
      match xfer c s (QType handle endh) with
      | None => (Raise EOther, c, s)
      | Some (c1, s1) =>
          match wait acc_type c1 with
          | (None, c2) => (Raise ETimeout, c2, s1)
          | (Some (RErr _ _ code), c2) =>
              if N.eqb code E_ATTR_NOT_FOUND then (Ok acc, c2, s1)
              else (Raise (EAtt code), c2, s1)
          | (Some (RType items), c2) =>
              let '(acc', h') := type_items items handle acc in disc_chars f h' endh acc' c2 s1
          | (Some _, c2) => (Raise EOther, c2, s1)
          end
      end
  end.

(** errors of the descriptor read that [discover] swallows:
    InsufficientAuthentication / Authorization / Encryption *)
Definition swallowed (code : N) : bool := N.eqb code 5 || N.eqb code 8 || N.eqb code 15.

(** [for descriptor in msg: handle = descriptor.handle; if handle == 0xFFFF: return; yield]
    with the consumer of [discover]: get_descriptor = read(handle), Descriptor.from_uuid,
    characteristic.add_descriptor.  Result: descriptors so far, last handle, finished?, or the
    exception that escapes. *)
Fixpoint info_items (items : list (N * bytes)) (handle : N) (acc : list (N * bytes))
         (c : client) (s : server) : result (list (N * bytes) * N * bool) :=
  match items with
  | [] => (Ok (acc, handle, false), c, s)
  | (h, u) :: r =>
      if N.eqb h 65535 then (Ok (acc, h, true), c, s) else
      match client_read h c s with
      | (Ok _, c1, s1) => info_items r h (acc ++ [(h, u)]) c1 s1
      | (Raise (EAtt code), c1, s1) =>
          if swallowed code then info_items r h acc c1 s1 else (Raise (EAtt code), c1, s1)
      | (Raise e, c1, s1) => (Raise e, c1, s1)
      | (Blocked, c1, s1) => (Blocked, c1, s1)
      | (OutOfFuel, c1, s1) => (OutOfFuel, c1, s1)
      end
  end.

(** [discover_characteristic_descriptors(characteristic)] driven by [discover] *)
Fixpoint disc_descs (fuel : nat) (handle endh : N) (acc : list (N * bytes)) (c : client) (s : server)
  : result (list (N * bytes)) :=
  match fuel with
  | O => (OutOfFuel, c, s)
  | S f =>
      if N.ltb endh handle then (Ok acc, c, s) else
      match xfer c s (QInfo handle endh) with
      | None => (Raise EOther, c, s)
      | Some (c1, s1) =>
          match wait acc_info c1 with
          | (None, c2) => (Raise ETimeout, c2, s1)
          | (Some (RErr _ _ code), c2) =>
              if N.eqb code E_ATTR_NOT_FOUND then (Ok acc, c2, s1)
              else (Raise (EAtt code), c2, s1)
          | (Some (RInfo items), c2) =>
              match info_items items handle acc c2 s1 with
              | (Ok (acc', h', stop), c3, s3) =>
                  if stop then (Ok acc', c3, s3) else disc_descs f (h' + 1) endh acc' c3 s3
              | (Raise e, c3, s3) => (Raise e, c3, s3)
              | (Blocked, c3, s3) => (Blocked, c3, s3)
              | (OutOfFuel, c3, s3) => (OutOfFuel, c3, s3)
              end
          | (Some _, c2) => (Raise EOther, c2, s1)
          end
      end
  end.

(** [service_char_handles.sort()] *)
Fixpoint insert_N (x : N) (l : list N) : list N :=
  match l with
  | [] => [x]
  | y :: r => if N.leb x y then x :: l else y :: insert_N x r
  end.
Definition sort_N (l : list N) : list N := fold_right insert_N [] l.

(** [idx = service_char_handles.index(handle)]; last -> service.end_handle, else next - 1 *)
Fixpoint end_after (l : list N) (h : N) (send : N) : option N :=
  match l with
  | [] => None                      (* list.index raises ValueError *)
  | x :: r => if N.eqb x h then Some (match r with [] => send | y :: _ => y - 1 end)
              else end_after r h send
  end.

(** Service.add_characteristic: the service end handle never ends below a characteristic's
    value handle as first computed (handle + 1) *)
Definition svc_end_after (e : N) (cs : list dchr) : N :=
  fold_left (fun m ch => N.max m (dc_handle ch + 1)) cs e.

(** phase 2 of [discover]: characteristics of every service *)
Fixpoint disc_all_chars (fuel : nat) (svcs : list dsvc) (c : client) (s : server) : result (list dsvc) :=
  match svcs with
  | [] => (Ok [], c, s)
  | sv :: r =>
      match disc_chars fuel (ds_start sv) (ds_end sv) [] c s with
      | (Ok cs, c1, s1) =>
          match disc_all_chars fuel r c1 s1 with
          | (Ok rest, c2, s2) =>
              (Ok ({| ds_uuid := ds_uuid sv; ds_start := ds_start sv;
                      ds_end := svc_end_after (ds_end sv) cs; ds_chrs := cs |} :: rest), c2, s2)
          | other => other
          end
      | (Raise e, c1, s1) => (Raise e, c1, s1)
      | (Blocked, c1, s1) => (Blocked, c1, s1)
      | (OutOfFuel, c1, s1) => (OutOfFuel, c1, s1)
      end
  end.

(** phase 3: descriptors of every characteristic of one service *)
Fixpoint disc_svc_descs (fuel : nat) (handles : list N) (send : N) (cs : list dchr)
         (c : client) (s : server) : result (list dchr) :=
  match cs with
  | [] => (Ok [], c, s)
  | ch :: r =>
      match end_after handles (dc_handle ch) send with
      | None => (Raise EOther, c, s)
      | Some endh =>
          match disc_descs fuel (dc_vh ch + 1) endh [] c s with
          | (Ok ds, c1, s1) =>
              match disc_svc_descs fuel handles send r c1 s1 with
              | (Ok rest, c2, s2) =>
                  (Ok ({| dc_handle := dc_handle ch; dc_props := dc_props ch; dc_vh := dc_vh ch;
                          dc_uuid := dc_uuid ch; dc_descs := ds |} :: rest), c2, s2)
              | other => other
              end
          | (Raise e, c1, s1) => (Raise e, c1, s1)
          | (Blocked, c1, s1) => (Blocked, c1, s1)
          | (OutOfFuel, c1, s1) => (OutOfFuel, c1, s1)
          end
      end
  end.

Fixpoint disc_all_descs (fuel : nat) (svcs : list dsvc) (c : client) (s : server) : result (list dsvc) :=
  match svcs with
  | [] => (Ok [], c, s)
  | sv :: r =>
      match disc_svc_descs fuel (sort_N (map dc_handle (ds_chrs sv))) (ds_end sv) (ds_chrs sv) c s with
      | (Ok cs, c1, s1) =>
          match disc_all_descs fuel r c1 s1 with
          | (Ok rest, c2, s2) =>
              (Ok ({| ds_uuid := ds_uuid sv; ds_start := ds_start sv; ds_end := ds_end sv; ds_chrs := cs |}
                   :: rest), c2, s2)
          | other => other
          end
      | (Raise e, c1, s1) => (Raise e, c1, s1)
      | (Blocked, c1, s1) => (Blocked, c1, s1)
      | (OutOfFuel, c1, s1) => (OutOfFuel, c1, s1)
      end
  end.

(** [GattClient.discover()] *)
Definition discover (fuel : nat) (c : client) (s : server) : result (list dsvc) :=
  if c_locked c then (Blocked, c, s) else
  match disc_primary fuel 1 [] c s with
  | (Ok svcs, c1, s1) =>
      match disc_all_chars fuel svcs c1 s1 with
      | (Ok svcs2, c2, s2) => disc_all_descs fuel svcs2 c2 s2
      | other => other
      end
  | other => other
  end.

(** fuel given to every loop: one round per attribute of the database, plus two *)
Definition disc_fuel (s : server) : nat := length (sdb s) + 2.

(** * Correspondence entry points *)

Definition attr_eqb (a b : attr) : bool :=
  match a, b with
  | APrimary u e, APrimary u' e' => bytes_eqb u u' && N.eqb e e'
  | ADecl p vh u, ADecl p' vh' u' => N.eqb p p' && N.eqb vh vh' && bytes_eqb u u'
  | AValue u v, AValue u' v' => bytes_eqb u u' && bytes_eqb v v'
  | ACccd v, ACccd v' => bytes_eqb v v'
  | ADesc u v, ADesc u' v' => bytes_eqb u u' && bytes_eqb v v'
  | _, _ => false
  end.

Fixpoint db_eqb (a b : db) : bool :=
  match a, b with
  | [], [] => true
  | (h, x) :: a', (k, y) :: b' => N.eqb h k && attr_eqb x y && db_eqb a' b'
  | _, _ => false
  end.

Fixpoint descs_eqb (a b : list (N * bytes)) : bool :=
  match a, b with
  | [], [] => true
  | (h, u) :: a', (k, w) :: b' => N.eqb h k && bytes_eqb u w && descs_eqb a' b'
  | _, _ => false
  end.

Definition dchr_eqb (a b : dchr) : bool :=
  N.eqb (dc_handle a) (dc_handle b) && N.eqb (dc_props a) (dc_props b) && N.eqb (dc_vh a) (dc_vh b)
  && bytes_eqb (dc_uuid a) (dc_uuid b) && descs_eqb (dc_descs a) (dc_descs b).

Fixpoint dchrs_eqb (a b : list dchr) : bool :=
  match a, b with
  | [], [] => true
  | x :: a', y :: b' => dchr_eqb x y && dchrs_eqb a' b'
  | _, _ => false
  end.

Definition dsvc_eqb (a b : dsvc) : bool :=
  bytes_eqb (ds_uuid a) (ds_uuid b) && N.eqb (ds_start a) (ds_start b) && N.eqb (ds_end a) (ds_end b)
  && dchrs_eqb (ds_chrs a) (ds_chrs b).

Fixpoint dsvcs_eqb (a b : list dsvc) : bool :=
  match a, b with
  | [], [] => true
  | x :: a', y :: b' => dsvc_eqb x y && dsvcs_eqb a' b'
  | _, _ => false
  end.

(** observed outcome of a discovery on the implementation *)
Inductive dobs :=
| DOk (l : list dsvc) | DAtt (code : N) | DTimeout | DOther | DSpin.

Definition dobs_eqb (o : outcome (list dsvc)) (b : dobs) : bool :=
  match o, b with
  | Ok l, DOk l' => dsvcs_eqb l l'
  | Raise (EAtt x), DAtt y => N.eqb x y
  | Raise ETimeout, DTimeout => true
  | Raise EOther, DOther => true
  | OutOfFuel, DSpin => true
  | _, _ => false
  end.

(** the client after the optional MTU exchange the harness performs first *)
Definition connect (d : db) (mtu : nat) : client * server :=
  if (mtu =? 23)%nat then (client_init, server_init d)
  else let '(_, c, s) := client_set_mtu mtu client_init (server_init d) in (c, s).

(** case: the profile, the attribute table the real Profile built, the MTU, what the real
    client rebuilt.  Checks the layout ([serve]) and the discovery. *)
Definition check_discover (x : profile * db * nat * dobs) : bool :=
  let '(p, table, mtu, ob) := x in
  db_eqb (serve p) table &&
  (let '(c, s) := connect table mtu in
   let '(o, _, _) := discover (disc_fuel s) c s in
   dobs_eqb o ob).

(** case: only the primary service enumeration from a given start handle *)
Definition check_primary (x : db * nat * N * dobs) : bool :=
  let '(table, mtu, start, ob) := x in
  let '(c, s) := connect table mtu in
  let '(o, _, _) := disc_primary (disc_fuel s) start [] c s in
  dobs_eqb o ob.

(** boolean form of the theorem's conclusion, for the model-side search *)
Definition discover_ok (p : profile) (mtu : nat) : bool :=
  let '(c, s) := connect (serve p) mtu in
  let '(o, _, _) := discover (disc_fuel s) c s in
  dobs_eqb o (DOk (shape p)).
