(** C10 — property theorems only (each closed by [exact]); see Proofs.v.
    [serve P] = the attribute database Profile builds for the profile [P] from handle 1;
    [shape P] = its services, characteristics and descriptors with their handles, value
    handles, UUIDs, properties and handle ranges; [discover] = GattClient.discover() against the
    modelled GattServer; [wf_profile P] = every UUID is 16- or 128-bit, fewer than 65535
    attributes.  No restriction on how 16- and 128-bit UUIDs are mixed. *)
From Coq Require Import List NArith Arith.
From Whad Require Import Lib.Bytes C09.Model C09.Proofs C10.Model C10.Proofs.
Import ListNotations.

(** Full discovery of ANY well-formed served profile, at ANY MTU >= 23, from any state between
    two procedures: terminates within the fuel (one round per attribute, plus two) and rebuilds
    exactly the served structure; client and server are left as they were. *)
Theorem C10_discover_reconstructs :
  forall (P : profile) (c : client) (s : server) (mtu : nat),
    wf_profile P -> clean c s mtu -> sdb s = serve P ->
    discover (disc_fuel s) c s = (Ok (shape P), c, s).
Proof. exact discover_reconstructs. Qed.

(** termination: any fuel above the number of attributes is enough (no loop of the client
    needs more rounds than there are attributes) *)
Theorem C10_discover_fuel_enough :
  forall (P : profile) (c : client) (s : server) (mtu fuel : nat),
    wf_profile P -> clean c s mtu -> sdb s = serve P ->
    (N.to_nat (profile_size P) < fuel)%nat ->
    discover fuel c s = (Ok (shape P), c, s).
Proof. exact discover_reconstructs_fuel. Qed.

(** the same from a fresh connection, after the MTU exchange performed by the client *)
Theorem C10_discover_after_connect :
  forall (P : profile) (mtu : nat),
    wf_profile P -> (23 <= mtu)%nat -> (N.of_nat mtu < 65536)%N ->
    let '(c, s) := connect (serve P) mtu in
    discover (disc_fuel s) c s = (Ok (shape P), c, s).
Proof. exact discover_after_connect. Qed.

(** layout: the served attributes have the handles 1 .. size, strictly increasing *)
Theorem C10_serve_handles :
  forall P : profile,
    from 1%N (serve P) /\ below (1 + profile_size P)%N (serve P) /\ incr (serve P)
    /\ N.of_nat (length (serve P)) = profile_size P.
Proof. exact serve_handles. Qed.

(** an invalid start handle is answered INVALID_HANDLE, which the enumeration raises at once
    (before the repair it built the exception without raising it and looped forever) *)
Theorem C10_invalid_start_raises :
  forall (s : server) (mtu cm f : nat) (acc : list dsvc),
    crashed s = false ->
    disc_primary (S f) 0%N acc (mkc mtu cm [] false) s
    = (Raise (EAtt E_INVALID_HANDLE), mkc mtu cm [] false, s).
Proof. exact disc_primary_invalid_start. Qed.

(** Non-vacuity: a 14-attribute profile mixing 16- and 128-bit UUIDs among services,
    characteristics (16/128/16) and descriptors (16/128/CCCD) is well-formed and is rebuilt at
    MTU 23 and 64. *)
Example C10_nonvacuous :
  wf_profile p_mixed /\ clean client_init (server_init (serve p_mixed)) 23%nat
  /\ profile_size p_mixed = 14%N
  /\ discover_ok p_mixed 23%nat = true /\ discover_ok p_mixed 64%nat = true.
Proof. exact nonvacuous. Qed.
