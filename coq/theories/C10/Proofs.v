(** C10 — lemmas: layout of a served profile, what the server list builders answer on it,
    and the three client enumeration loops. *)
From Coq Require Import List NArith ZArith Arith Bool Lia ZifyBool ZifyN ZifyNat.
From Whad Require Import Lib.Bytes C09.Model C09.Proofs C10.Model.
Import ListNotations.
Open Scope N_scope.

(** * Lists *)

Lemma filter_andb {A} (p q : A -> bool) l :
  filter (fun x => p x && q x) l = filter q (filter p l).
Proof.
  induction l as [|x l IH]; cbn [filter]; [reflexivity|].
  destruct (p x); cbn [andb filter]; [destruct (q x)|]; now rewrite IH.
Qed.

Lemma filter_false {A} (p : A -> bool) l : Forall (fun x => p x = false) l -> filter p l = [].
Proof. induction 1 as [|x l Hx _ IH]; cbn [filter]; [reflexivity|]. now rewrite Hx. Qed.

Lemma filter_true {A} (p : A -> bool) l : Forall (fun x => p x = true) l -> filter p l = l.
Proof. induction 1 as [|x l Hx _ IH]; cbn [filter]; [reflexivity|]. now rewrite Hx, IH. Qed.

(** handles of a piece of database *)
Definition below (b : N) (l : db) : Prop := Forall (fun x => fst x < b) l.
Definition from (a : N) (l : db) : Prop := Forall (fun x => a <= fst x) l.

Lemma below_app b l1 l2 : below b (l1 ++ l2) <-> below b l1 /\ below b l2.
Proof. apply Forall_app. Qed.
Lemma from_app a l1 l2 : from a (l1 ++ l2) <-> from a l1 /\ from a l2.
Proof. apply Forall_app. Qed.
Lemma below_mono b b' l : below b l -> b <= b' -> below b' l.
Proof. intros H Hb. eapply Forall_impl; [|exact H]. cbn. intros; lia. Qed.
Lemma from_mono a a' l : from a l -> a' <= a -> from a' l.
Proof. intros H Hb. eapply Forall_impl; [|exact H]. cbn. intros; lia. Qed.

(** strictly increasing handles *)
Inductive incr : db -> Prop :=
| incr_nil : incr []
| incr_cons x l : from (fst x + 1) l -> incr l -> incr (x :: l).

Lemma incr_app l1 l2 b : incr l1 -> incr l2 -> below b l1 -> from b l2 -> incr (l1 ++ l2).
Proof.
  induction 1 as [|x l Hf Hi IH]; intros H2 Hb Hfr; cbn [app]; [assumption|].
  inversion Hb as [|? ? Hx Hb']; subst. constructor.
  - apply from_app. split; [assumption|]. eapply from_mono; [exact Hfr|lia].
  - apply IH; assumption.
Qed.

Lemma insert_h_from x l : from (fst x) l -> insert_h x l = x :: l.
Proof.
  destruct l as [|y r]; cbn [insert_h]; [reflexivity|]. intros H. inversion H; subst.
  replace (fst x <=? fst y) with true by (symmetry; apply N.leb_le; lia). reflexivity.
Qed.

Lemma sort_h_incr l : incr l -> sort_h l = l.
Proof.
  unfold sort_h. induction 1 as [|x l Hf Hi IH]; cbn [fold_right]; [reflexivity|].
  rewrite IH. apply insert_h_from. eapply from_mono; [exact Hf|lia].
Qed.

Lemma incr_filter p l : incr l -> incr (filter p l).
Proof.
  induction 1 as [|x l Hf Hi IH]; cbn [filter]; [constructor|].
  destruct (p x); [|assumption]. constructor; [|assumption].
  unfold from in *. rewrite Forall_forall in *. intros y Hy. apply filter_In in Hy. apply Hf, Hy.
Qed.

Lemma lookup_app l1 l2 h :
  lookup (l1 ++ l2) h = match lookup l1 h with Some a => Some a | None => lookup l2 h end.
Proof.
  induction l1 as [|[k a] l1 IH]; cbn [app lookup]; [reflexivity|].
  destruct (N.eqb k h); [reflexivity|exact IH].
Qed.

Lemma lookup_below b l h : below b l -> b <= h -> lookup l h = None.
Proof.
  induction 1 as [|[k a] l Hx _ IH]; intros Hb; cbn [lookup]; [reflexivity|].
  cbn [fst] in Hx. replace (N.eqb k h) with false by (symmetry; apply N.eqb_neq; lia). auto.
Qed.

Lemma lookup_from a l h : from a l -> h < a -> lookup l h = None.
Proof.
  induction 1 as [|[k x] l Hx _ IH]; intros Hb; cbn [lookup]; [reflexivity|].
  cbn [fst] in Hx. replace (N.eqb k h) with false by (symmetry; apply N.eqb_neq; lia). auto.
Qed.

(** * A block of a database: all the entries with a handle in [lo, hi] *)

Definition block (D B : db) (lo hi : N) : Prop :=
  exists X Y, D = X ++ B ++ Y /\ below lo X /\ from (hi + 1) Y.

Lemma block_refl D lo hi : block D D lo hi.
Proof. exists [], []. rewrite app_nil_r. repeat split; constructor. Qed.

Lemma block_trans D B B' lo hi lo' hi' :
  block D B lo hi -> block B B' lo' hi' -> lo <= lo' -> hi' <= hi ->
  below (hi + 1) B -> from lo B ->
  block D B' lo' hi'.
Proof.
  intros (X & Y & -> & HX & HY) (X' & Y' & -> & HX' & HY') Hlo Hhi Hb Hf.
  exists (X ++ X'), (Y' ++ Y). split; [now rewrite <- !app_assoc|]. split.
  - apply below_app. split; [eapply below_mono; eauto | assumption].
  - apply from_app. split; [assumption | eapply from_mono; eauto; lia].
Qed.

Lemma filter_block D B lo hi st e (f : N * attr -> bool) :
  block D B lo hi -> lo <= st -> e <= hi ->
  filter (fun x => f x && in_range st e x) D = filter (fun x => f x && in_range st e x) B.
Proof.
  intros (X & Y & -> & HX & HY) Hlo Hhi. rewrite !filter_app.
  rewrite (filter_false _ X), (filter_false _ Y).
  - now rewrite app_nil_r.
  - eapply Forall_impl; [|exact HY]. cbn. intros x Hx. unfold in_range.
    replace (fst x <=? e) with false by (symmetry; apply N.leb_gt; lia). now rewrite !andb_false_r.
  - eapply Forall_impl; [|exact HX]. cbn. intros x Hx. unfold in_range.
    replace (st <=? fst x) with false by (symmetry; apply N.leb_gt; lia). now rewrite andb_false_r.
Qed.

Lemma lookup_block D B lo hi h :
  block D B lo hi -> lo <= h -> h <= hi -> lookup D h = lookup B h.
Proof.
  intros (X & Y & -> & HX & HY) Hlo Hhi. rewrite !lookup_app.
  rewrite (lookup_below lo X h HX Hlo). destruct (lookup B h); [reflexivity|].
  apply (lookup_from (hi + 1)); [assumption|lia].
Qed.

(** * Layout *)

Lemma serve_descs_bounds h ds :
  from h (serve_descs h ds) /\ below (h + N.of_nat (length ds)) (serve_descs h ds) /\ incr (serve_descs h ds).
Proof.
  revert h. induction ds as [|d r IH]; intros h; cbn [serve_descs length].
  - repeat split; constructor.
  - destruct (IH (h + 1)) as (F & B & I). repeat split.
    + constructor; [cbn [fst]; lia|]. eapply from_mono; [exact F|lia].
    + constructor; [cbn [fst]; lia|]. eapply below_mono; [exact B|lia].
    + constructor; [exact F|exact I].
Qed.

Lemma chr_size_ge c : 2 <= chr_size c.
Proof. unfold chr_size. lia. Qed.

Lemma serve_chrs_bounds h cs :
  from h (serve_chrs h cs) /\ below (h + chrs_size cs) (serve_chrs h cs) /\ incr (serve_chrs h cs).
Proof.
  revert h. induction cs as [|c r IH]; intros h; cbn [serve_chrs chrs_size fold_right].
  - repeat split; constructor.
  - fold (chrs_size r). destruct (IH (h + chr_size c)) as (F & B & I).
    destruct (serve_descs_bounds (h + 2) (c_descs c)) as (Fd & Bd & Id).
    pose proof (chr_size_ge c) as Hs.
    assert (Hsz : h + 2 + N.of_nat (length (c_descs c)) = h + chr_size c) by (unfold chr_size; lia).
    rewrite Hsz in Bd.
    repeat split.
    + constructor; [cbn [fst]; lia|]. constructor; [cbn [fst]; lia|]. apply from_app. split.
      * eapply from_mono; [exact Fd|lia].
      * eapply from_mono; [exact F|lia].
    + constructor; [cbn [fst]; lia|]. constructor; [cbn [fst]; lia|]. apply below_app. split.
      * eapply below_mono; [exact Bd|lia].
      * eapply below_mono; [exact B|lia].
    + constructor.
      * constructor; [cbn [fst]; lia|]. apply from_app. split.
        -- eapply from_mono; [exact Fd|cbn [fst]; lia].
        -- eapply from_mono; [exact F|cbn [fst]; lia].
      * constructor.
        -- apply from_app. split; [eapply from_mono; [exact Fd|cbn [fst]; lia] | eapply from_mono; [exact F|cbn [fst]; lia]].
        -- eapply incr_app; eauto.
Qed.

Lemma svc_size_ge s : 1 <= svc_size s.
Proof. unfold svc_size. lia. Qed.

Lemma serve_svcs_bounds h ss :
  from h (serve_svcs h ss) /\ below (h + profile_size ss) (serve_svcs h ss) /\ incr (serve_svcs h ss).
Proof.
  revert h. induction ss as [|s r IH]; intros h; cbn [serve_svcs profile_size fold_right].
  - repeat split; constructor.
  - fold (profile_size r). destruct (IH (h + svc_size s)) as (F & B & I).
    destruct (serve_chrs_bounds (h + 1) (s_chrs s)) as (Fc & Bc & Ic).
    assert (Hsz : h + 1 + chrs_size (s_chrs s) = h + svc_size s) by (unfold svc_size; lia).
    rewrite Hsz in Bc.
    repeat split.
    + constructor; [cbn [fst]; lia|]. apply from_app. split; eapply from_mono; eauto; lia.
    + constructor; [cbn [fst]; pose proof (svc_size_ge s); lia|]. apply below_app. split; eapply below_mono; eauto; lia.
    + constructor.
      * apply from_app. split; eapply from_mono; eauto; cbn [fst]; lia.
      * eapply incr_app; eauto.
Qed.

Lemma serve_svcs_app h p1 p2 :
  serve_svcs h (p1 ++ p2) = serve_svcs h p1 ++ serve_svcs (h + profile_size p1) p2.
Proof.
  revert h. induction p1 as [|s r IH]; intros h; cbn [app serve_svcs profile_size fold_right].
  - now rewrite N.add_0_r.
  - fold (profile_size r). rewrite IH, <- app_assoc. cbn [app].
    replace (h + (svc_size s + profile_size r)) with (h + svc_size s + profile_size r) by lia. reflexivity.
Qed.

Lemma profile_size_app p1 p2 : profile_size (p1 ++ p2) = profile_size p1 + profile_size p2.
Proof.
  induction p1 as [|s r IH]; cbn [app profile_size fold_right]; [reflexivity|].
  fold (profile_size (r ++ p2)) (profile_size r). rewrite IH. lia.
Qed.

Lemma serve_chrs_app h c1 c2 :
  serve_chrs h (c1 ++ c2) = serve_chrs h c1 ++ serve_chrs (h + chrs_size c1) c2.
Proof.
  revert h. induction c1 as [|c r IH]; intros h; cbn [app serve_chrs chrs_size fold_right].
  - now rewrite N.add_0_r.
  - fold (chrs_size r). rewrite IH, <- !app_assoc. cbn [app].
    replace (h + (chr_size c + chrs_size r)) with (h + chr_size c + chrs_size r) by lia. reflexivity.
Qed.

Lemma chrs_size_app c1 c2 : chrs_size (c1 ++ c2) = chrs_size c1 + chrs_size c2.
Proof.
  induction c1 as [|c r IH]; cbn [app chrs_size fold_right]; [reflexivity|].
  fold (chrs_size (r ++ c2)) (chrs_size r). rewrite IH. lia.
Qed.

Lemma serve_descs_app h d1 d2 :
  serve_descs h (d1 ++ d2) = serve_descs h d1 ++ serve_descs (h + N.of_nat (length d1)) d2.
Proof.
  revert h. induction d1 as [|d r IH]; intros h; cbn [app serve_descs length].
  - now rewrite N.add_0_r.
  - rewrite IH. cbn [app].
    replace (h + N.of_nat (S (length r))) with (h + 1 + N.of_nat (length r)) by lia. reflexivity.
Qed.

(** * The size rule of the list builders *)

Lemma take_while_firstn {A} (p : A -> bool) l : take_while p l = firstn (length (take_while p l)) l.
Proof.
  induction l as [|x l IH]; cbn [take_while]; [reflexivity|].
  destruct (p x); cbn [length firstn]; [now rewrite <- IH | reflexivity].
Qed.

Lemma ssp_firstn {A} (sz : A -> nat) maxn (l : list A) :
  l <> [] -> (1 <= maxn)%nat ->
  exists k, (1 <= k <= length l)%nat /\ same_size_prefix sz maxn l = firstn k l.
Proof.
  intros Hl Hm. destruct l as [|x r]; [congruence|]. unfold same_size_prefix.
  rewrite take_while_firstn, firstn_firstn.
  set (j := length (take_while (fun y => (sz y =? sz x)%nat) (x :: r))).
  assert (Hj : (1 <= j <= length (x :: r))%nat).
  { unfold j. cbn [take_while]. rewrite Nat.eqb_refl. cbn [length].
    pose proof (take_while_firstn (fun y => (sz y =? sz x)%nat) r) as E.
    assert (length (take_while (fun y => (sz y =? sz x)%nat) r) <= length r)%nat.
    { rewrite E at 1. rewrite firstn_length. lia. }
    lia. }
  exists (Nat.min maxn j). split; [lia|reflexivity].
Qed.

Definition uuid_ok (u : bytes) : Prop := length u = 2%nat \/ length u = 16%nat.

Lemma max_items_pos mtu usz k : (23 <= mtu)%nat -> (usz = 2 \/ usz = 16)%nat -> (k <= 5)%nat ->
  (1 <= (mtu - 2) / (usz + k))%nat.
Proof.
  intros Hm Hu Hk. apply Nat.div_le_lower_bound; lia.
Qed.

Lemma Forall_filter {A} (P : A -> Prop) f l : Forall P l -> Forall P (filter f l).
Proof.
  induction 1 as [|x l Hx _ IH]; cbn [filter]; [constructor|]. destruct (f x); auto.
Qed.

(** * Phase 1: primary services *)

Fixpoint prims (h : N) (ss : list svc) : db :=
  match ss with
  | [] => []
  | s :: r => (h, APrimary (s_uuid s) (h + svc_size s - 1)) :: prims (h + svc_size s) r
  end.

Lemma desc_attr_kind d : is_primary (0, desc_attr d) = false /\ is_decl (0, desc_attr d) = false.
Proof. unfold desc_attr. destruct (d_cccd d); split; reflexivity. Qed.

Lemma serve_descs_no_primary h ds : filter is_primary (serve_descs h ds) = [].
Proof.
  revert h. induction ds as [|d r IH]; intros h; cbn [serve_descs filter]; [reflexivity|].
  unfold is_primary at 1. cbn [snd]. unfold desc_attr. destruct (d_cccd d); apply IH.
Qed.

Lemma serve_chrs_no_primary h cs : filter is_primary (serve_chrs h cs) = [].
Proof.
  revert h. induction cs as [|c r IH]; intros h; cbn [serve_chrs filter]; [reflexivity|].
  unfold is_primary at 1 2. cbn [snd]. now rewrite filter_app, serve_descs_no_primary, IH.
Qed.

Lemma filter_primary_svcs h ss : filter is_primary (serve_svcs h ss) = prims h ss.
Proof.
  revert h. induction ss as [|s r IH]; intros h; cbn [serve_svcs filter prims]; [reflexivity|].
  unfold is_primary at 1. cbn [snd]. now rewrite filter_app, serve_chrs_no_primary, IH.
Qed.

Lemma prims_bounds h ss :
  from h (prims h ss) /\ below (h + profile_size ss) (prims h ss) /\ incr (prims h ss).
Proof.
  rewrite <- filter_primary_svcs. destruct (serve_svcs_bounds h ss) as (F & B & I).
  repeat split; [apply Forall_filter | apply Forall_filter | apply incr_filter]; assumption.
Qed.

Lemma prims_firstn k h ss : firstn k (prims h ss) = prims h (firstn k ss).
Proof.
  revert h ss. induction k as [|k IH]; intros h [|s r]; cbn [firstn prims]; try reflexivity.
  now rewrite IH.
Qed.

(** items of a Read By Group Type Response *)
Fixpoint gitems (h : N) (ss : list svc) : list (N * N * bytes) :=
  match ss with
  | [] => []
  | s :: r => (h, h + svc_size s - 1, s_uuid s) :: gitems (h + svc_size s) r
  end.

Lemma map_gitem_prims h ss :
  map (fun y : N * attr => match snd y with
                           | APrimary u eh => (fst y, eh, u)
                           | _ => (fst y, 0, [])
                           end) (prims h ss) = gitems h ss.
Proof.
  revert h. induction ss as [|s r IH]; intros h; cbn [prims map gitems fst snd]; [reflexivity|].
  now rewrite IH.
Qed.

(** phase-1 view of the services: no characteristic yet *)
Fixpoint shape0_svcs (h : N) (ss : list svc) : list dsvc :=
  match ss with
  | [] => []
  | s :: r => {| ds_uuid := s_uuid s; ds_start := h; ds_end := h + svc_size s - 1; ds_chrs := [] |}
              :: shape0_svcs (h + svc_size s) r
  end.

Lemma shape0_svcs_app h p1 p2 :
  shape0_svcs h (p1 ++ p2) = shape0_svcs h p1 ++ shape0_svcs (h + profile_size p1) p2.
Proof.
  revert h. induction p1 as [|s r IH]; intros h; cbn [app shape0_svcs profile_size fold_right].
  - now rewrite N.add_0_r.
  - fold (profile_size r). rewrite IH.
    replace (h + (svc_size s + profile_size r)) with (h + svc_size s + profile_size r) by lia. reflexivity.
Qed.

Lemma group_items_spec ss : forall h h0 acc,
  h + profile_size ss <= 65535 ->
  group_items (gitems h ss) h0 acc
  = (acc ++ shape0_svcs h ss, match ss with [] => h0 | _ => h + profile_size ss - 1 end, false).
Proof.
  induction ss as [|s r IH]; intros h h0 acc Hb; cbn [gitems group_items shape0_svcs].
  - now rewrite app_nil_r.
  - cbn [profile_size fold_right] in *. fold (profile_size r) in *.
    pose proof (svc_size_ge s).
    replace (h + svc_size s - 1 =? 65535) with false by (symmetry; apply N.eqb_neq; lia).
    rewrite IH by lia. rewrite <- app_assoc. cbn [app]. f_equal. f_equal.
    destruct r; [cbn [profile_size fold_right]; lia|].
    cbn [profile_size fold_right]. lia.
Qed.

Definition wf_desc (d : desc) : Prop := uuid_ok (desc_type d).
Definition wf_chr (c : chr) : Prop := uuid_ok (c_uuid c) /\ Forall wf_desc (c_descs c).
Definition wf_svc (s : svc) : Prop := uuid_ok (s_uuid s) /\ Forall wf_chr (s_chrs s).
Definition wf_profile (p : profile) : Prop := Forall wf_svc p /\ profile_size p < 65535.

(** what the server answers to Read By Group Type on a served profile, from the start handle
    of a service *)
Lemma srv_group_spec s Pd ss' :
  crashed s = false -> (23 <= s_cmtu s)%nat ->
  sdb s = serve (Pd ++ ss') -> Forall wf_svc ss' ->
  1 + profile_size Pd + profile_size ss' <= 65535 ->
  let st := 1 + profile_size Pd in
  match ss' with
  | [] => server_step s (QGroup st 65535) = (s, Some (RErr OP_READ_BY_GROUP st E_ATTR_NOT_FOUND))
  | _ => exists k, (1 <= k <= length ss')%nat /\
         server_step s (QGroup st 65535) = (s, Some (RGroup (gitems st (firstn k ss'))))
  end.
Proof.
  intros Hc Hm Hdb Hwf Hsz st.
  assert (Hfilter : sort_h (filter (fun x => is_primary x && in_range st 65535 x) (sdb s)) = prims st ss').
  { rewrite Hdb. unfold serve. rewrite serve_svcs_app. fold st.
    rewrite filter_andb, filter_app, !filter_primary_svcs, filter_app.
    destruct (prims_bounds 1 Pd) as (_ & B1 & _). destruct (prims_bounds st ss') as (F2 & B2 & I2).
    rewrite (filter_false _ (prims 1 Pd)), (filter_true _ (prims st ss')).
    - cbn [app]. now apply sort_h_incr.
    - unfold from, below in *. rewrite Forall_forall in *. intros x Hx. unfold in_range.
      specialize (F2 _ Hx). specialize (B2 _ Hx). apply andb_true_intro. split; apply N.leb_le; lia.
    - eapply Forall_impl; [|exact B1]. cbn beta. intros x Hx. unfold in_range.
      replace (st <=? fst x) with false by (symmetry; apply N.leb_gt; subst st; lia). reflexivity. }
  unfold server_step. unfold srv_group.
  replace (range_invalid st 65535) with false.
  2:{ symmetry. unfold range_invalid. apply orb_false_intro; [apply N.eqb_neq | apply N.ltb_ge]; subst st; lia. }
  rewrite Hfilter.
  destruct ss' as [|x r]; [reflexivity|].
  inversion Hwf as [|? ? [Hu _] _]; subst.
  assert (Hmax : (1 <= (s_cmtu s - 2) / (length (s_uuid x) + 4))%nat) by (apply max_items_pos; auto; lia).
  assert (Hne : prims st (x :: r) <> []) by (cbn [prims]; discriminate).
  destruct (ssp_firstn (fun y : N * attr => length (own_uuid (snd y))) _ _ Hne Hmax) as (k & Hk & Hs).
  assert (Hlen : length (prims st (x :: r)) = length (x :: r)).
  { clear. generalize st. induction (x :: r) as [|a b IH]; intros; cbn [prims length]; auto. }
  exists k. split; [lia|].
  rewrite <- map_gitem_prims, <- prims_firstn, <- Hs.
  cbn [prims snd own_uuid]. reflexivity.
Qed.

Lemma profile_size_firstn_le k ss : profile_size (firstn k ss) <= profile_size ss.
Proof.
  rewrite <- (firstn_skipn k ss) at 2. rewrite profile_size_app. lia.
Qed.

Lemma wf_svc_skipn k ss : Forall wf_svc ss -> Forall wf_svc (skipn k ss).
Proof.
  intros H. rewrite <- (firstn_skipn k ss) in H. apply Forall_app in H. tauto.
Qed.

Lemma disc_primary_spec s mtu cm P :
  crashed s = false -> (23 <= s_cmtu s)%nat -> sdb s = serve P ->
  Forall wf_svc P -> profile_size P < 65535 ->
  forall n ss' Pd acc fuel,
    P = Pd ++ ss' -> (length ss' <= n)%nat -> (n < fuel)%nat ->
    disc_primary fuel (1 + profile_size Pd) acc (mkc mtu cm [] false) s
    = (Ok (acc ++ shape0_svcs (1 + profile_size Pd) ss'), mkc mtu cm [] false, s).
Proof.
  intros Hc Hm Hdb Hwf Hsz.
  assert (Hstep : forall ss' Pd, P = Pd ++ ss' ->
            profile_size Pd + profile_size ss' < 65535 /\
            fits16 (1 + profile_size Pd) = true /\
            match ss' with
            | [] => server_step s (QGroup (1 + profile_size Pd) 65535)
                    = (s, Some (RErr OP_READ_BY_GROUP (1 + profile_size Pd) E_ATTR_NOT_FOUND))
            | _ => exists k, (1 <= k <= length ss')%nat /\
                   server_step s (QGroup (1 + profile_size Pd) 65535)
                   = (s, Some (RGroup (gitems (1 + profile_size Pd) (firstn k ss'))))
            end).
  { intros ss' Pd HP.
    assert (Htot : profile_size Pd + profile_size ss' < 65535)
      by (rewrite <- profile_size_app, <- HP; exact Hsz).
    assert (Hwf' : Forall wf_svc ss') by (rewrite HP in Hwf; apply Forall_app in Hwf; tauto).
    split; [exact Htot|]. split; [apply fits16_N; lia|].
    apply (srv_group_spec s Pd ss' Hc Hm); [rewrite Hdb, HP; reflexivity | exact Hwf' | lia]. }
  induction n as [|n IH]; intros ss' Pd acc fuel HP Hlen Hfuel;
    (destruct fuel as [|f]; [lia|]); cbn [disc_primary]; unfold xfer; cbn [encodable];
    destruct (Hstep ss' Pd HP) as (Htot & Hfit & Hsrv); rewrite Hfit;
    cbn [fits16 N.ltb N.compare Pos.compare Pos.compare_cont andb].
  - destruct ss'; [|cbn [length] in Hlen; lia]. rewrite Hsrv.
    cbn [deliver]. unfold wait, set_q, mkc. cbn [c_q c_mtu c_cmtu c_locked app wait_in is_cmd_err acc_group is_err].
    cbn [N.eqb E_ATTR_NOT_FOUND Pos.eqb shape0_svcs]. now rewrite app_nil_r.
  - destruct ss' as [|x r].
    + rewrite Hsrv.
      cbn [deliver]. unfold wait, set_q, mkc. cbn [c_q c_mtu c_cmtu c_locked app wait_in is_cmd_err acc_group is_err].
      cbn [N.eqb E_ATTR_NOT_FOUND Pos.eqb shape0_svcs]. now rewrite app_nil_r.
    + destruct Hsrv as (k & Hk & Hsrv). rewrite Hsrv.
      cbn [deliver]. unfold wait, set_q, mkc. cbn [c_q c_mtu c_cmtu c_locked app wait_in is_cmd_err acc_group is_err].
      pose proof (profile_size_firstn_le k (x :: r)) as Hfl.
      rewrite group_items_spec by lia.
      destruct k as [|k]; [lia|]. cbn [firstn].
      change (x :: firstn k r) with (firstn (S k) (x :: r)).
      assert (Hpos : 1 <= profile_size (firstn (S k) (x :: r))).
      { cbn [firstn profile_size fold_right]. pose proof (svc_size_ge x). lia. }
      change {| c_mtu := mtu; c_cmtu := cm; c_q := []; c_locked := false |} with (mkc mtu cm [] false).
      replace (1 + profile_size Pd + profile_size (firstn (S k) (x :: r)) - 1 + 1)
        with (1 + profile_size (Pd ++ firstn (S k) (x :: r))) by (rewrite profile_size_app; lia).
      rewrite (IH (skipn (S k) (x :: r)) (Pd ++ firstn (S k) (x :: r))).
      * rewrite <- app_assoc.
        assert (E : shape0_svcs (1 + profile_size Pd) (x :: r)
                    = shape0_svcs (1 + profile_size Pd) (firstn (S k) (x :: r))
                      ++ shape0_svcs (1 + profile_size Pd + profile_size (firstn (S k) (x :: r))) (skipn (S k) (x :: r)))
          by (rewrite <- shape0_svcs_app, firstn_skipn; reflexivity).
        rewrite E, profile_size_app, N.add_assoc. reflexivity.
      * rewrite <- app_assoc, firstn_skipn. exact HP.
      * rewrite skipn_length. cbn [length] in *. lia.
      * lia.
Qed.

(** * Phase 2: characteristics of a service *)

Fixpoint decls (h : N) (cs : list chr) : db :=
  match cs with
  | [] => []
  | c :: r => (h, ADecl (c_props c) (h + 1) (c_uuid c)) :: decls (h + chr_size c) r
  end.

Fixpoint titems (h : N) (cs : list chr) : list (N * N * N * bytes) :=
  match cs with
  | [] => []
  | c :: r => (h, c_props c, h + 1, c_uuid c) :: titems (h + chr_size c) r
  end.

Fixpoint shape0_chrs (h : N) (cs : list chr) : list dchr :=
  match cs with
  | [] => []
  | c :: r => {| dc_handle := h; dc_props := c_props c; dc_vh := h + 1; dc_uuid := c_uuid c; dc_descs := [] |}
              :: shape0_chrs (h + chr_size c) r
  end.

(** the handle the client resumes from after the characteristics [cs] laid out from [h] *)
Fixpoint next_start (h0 h : N) (cs : list chr) : N :=
  match cs with
  | [] => h0
  | c :: r => next_start (h + 2) (h + chr_size c) r
  end.

Lemma serve_descs_no_decl h ds : filter is_decl (serve_descs h ds) = [].
Proof.
  revert h. induction ds as [|d r IH]; intros h; cbn [serve_descs filter]; [reflexivity|].
  unfold is_decl at 1. cbn [snd]. unfold desc_attr. destruct (d_cccd d); apply IH.
Qed.

Lemma filter_decl_chrs h cs : filter is_decl (serve_chrs h cs) = decls h cs.
Proof.
  revert h. induction cs as [|c r IH]; intros h; cbn [serve_chrs filter decls]; [reflexivity|].
  unfold is_decl at 1 2. cbn [snd]. now rewrite filter_app, serve_descs_no_decl, IH.
Qed.

Lemma decls_bounds h cs :
  from h (decls h cs) /\ below (h + chrs_size cs) (decls h cs) /\ incr (decls h cs).
Proof.
  rewrite <- filter_decl_chrs. destruct (serve_chrs_bounds h cs) as (F & B & I).
  repeat split; [apply Forall_filter | apply Forall_filter | apply incr_filter]; assumption.
Qed.

Lemma decls_app h c1 c2 : decls h (c1 ++ c2) = decls h c1 ++ decls (h + chrs_size c1) c2.
Proof. rewrite <- !filter_decl_chrs, serve_chrs_app, filter_app. reflexivity. Qed.

Lemma decls_firstn k h cs : firstn k (decls h cs) = decls h (firstn k cs).
Proof.
  revert h cs. induction k as [|k IH]; intros h [|c r]; cbn [firstn decls]; try reflexivity.
  now rewrite IH.
Qed.

Lemma decls_length h cs : length (decls h cs) = length cs.
Proof. revert h. induction cs as [|c r IH]; intros h; cbn [decls length]; auto. Qed.

Lemma map_titem_decls h cs :
  map (fun y : N * attr => match snd y with
                           | ADecl p vh u => (fst y, p, vh, u)
                           | _ => (fst y, 0, 0, [])
                           end) (decls h cs) = titems h cs.
Proof.
  revert h. induction cs as [|c r IH]; intros h; cbn [decls map titems fst snd]; [reflexivity|].
  now rewrite IH.
Qed.

Lemma shape0_chrs_app h c1 c2 :
  shape0_chrs h (c1 ++ c2) = shape0_chrs h c1 ++ shape0_chrs (h + chrs_size c1) c2.
Proof.
  revert h. induction c1 as [|c r IH]; intros h; cbn [app shape0_chrs chrs_size fold_right].
  - now rewrite N.add_0_r.
  - fold (chrs_size r). rewrite IH.
    replace (h + (chr_size c + chrs_size r)) with (h + chr_size c + chrs_size r) by lia. reflexivity.
Qed.

Lemma type_items_spec cs : forall h h0 acc,
  type_items (titems h cs) h0 acc = (acc ++ shape0_chrs h cs, next_start h0 h cs).
Proof.
  induction cs as [|c r IH]; intros h h0 acc; cbn [titems type_items shape0_chrs next_start].
  - now rewrite app_nil_r.
  - rewrite IH, <- app_assoc. reflexivity.
Qed.

Lemma next_start_bounds cs : forall h h0, h0 <= h ->
  h0 <= next_start h0 h cs /\ next_start h0 h cs <= h + chrs_size cs
  /\ below (next_start h0 h cs) (decls h cs).
Proof.
  induction cs as [|c r IH]; intros h h0 Hh; cbn [next_start decls chrs_size fold_right].
  - repeat split; try lia. constructor.
  - fold (chrs_size r). pose proof (chr_size_ge c) as Hc.
    destruct (IH (h + chr_size c) (h + 2) ltac:(lia)) as (H1 & H2 & H3).
    repeat split; try lia. constructor; [cbn [fst]; lia | exact H3].
Qed.

Lemma chrs_size_firstn_le k cs : chrs_size (firstn k cs) <= chrs_size cs.
Proof. rewrite <- (firstn_skipn k cs) at 2. rewrite chrs_size_app. lia. Qed.

Lemma wf_chr_skipn k cs : Forall wf_chr cs -> Forall wf_chr (skipn k cs).
Proof. intros H. rewrite <- (firstn_skipn k cs) in H. apply Forall_app in H. tauto. Qed.

(** the entries of one service *)
Definition svc_db (a : N) (sv : svc) : db :=
  (a, APrimary (s_uuid sv) (a + svc_size sv - 1)) :: serve_chrs (a + 1) (s_chrs sv).

Lemma svc_block Pd sv Pr :
  let a := 1 + profile_size Pd in
  block (serve (Pd ++ sv :: Pr)) (svc_db a sv) a (a + svc_size sv - 1).
Proof.
  intros a. unfold serve. rewrite serve_svcs_app. fold a. cbn [serve_svcs].
  exists (serve_svcs 1 Pd), (serve_svcs (a + svc_size sv) Pr). split; [|split].
  - unfold svc_db. cbn [app]. reflexivity.
  - destruct (serve_svcs_bounds 1 Pd) as (_ & B & _). exact B.
  - destruct (serve_svcs_bounds (a + svc_size sv) Pr) as (F & _ & _).
    eapply from_mono; [exact F|]. pose proof (svc_size_ge sv). lia.
Qed.

(** what the server answers to Read By Type (0x2803) inside a service: [cd] already consumed,
    [cs'] still to come *)
Lemma srv_type_spec s a sv cd cs' st :
  crashed s = false -> (23 <= s_cmtu s)%nat ->
  block (sdb s) (svc_db a sv) a (a + svc_size sv - 1) ->
  s_chrs sv = cd ++ cs' -> Forall wf_chr cs' ->
  1 <= a -> a <= st -> st <= a + svc_size sv - 1 ->
  st <= a + 1 + chrs_size cd -> below st (decls (a + 1) cd) ->
  let e := a + svc_size sv - 1 in
  match cs' with
  | [] => server_step s (QType st e) = (s, Some (RErr OP_READ_BY_TYPE st E_ATTR_NOT_FOUND))
  | _ => exists k, (1 <= k <= length cs')%nat /\
         server_step s (QType st e) = (s, Some (RType (titems (a + 1 + chrs_size cd) (firstn k cs'))))
  end.
Proof.
  intros Hc Hm Hb Hcs Hwf Ha Hst Hste Hsth Hbel e.
  set (h' := a + 1 + chrs_size cd).
  assert (He : e + 1 = a + 1 + chrs_size (s_chrs sv)) by (subst e; unfold svc_size; lia).
  assert (Hfilter : sort_h (filter (fun x => is_decl x && in_range st e x) (sdb s)) = decls h' cs').
  { rewrite (filter_block _ _ _ _ st e is_decl Hb) by (subst e; lia).
    unfold svc_db. cbn [filter]. unfold is_decl at 1. cbn [snd andb].
    rewrite filter_andb, filter_decl_chrs, Hcs, decls_app, filter_app. fold h'.
    destruct (decls_bounds h' cs') as (F2 & B2 & I2).
    rewrite (filter_false _ (decls (a + 1) cd)), (filter_true _ (decls h' cs')).
    - cbn [app]. now apply sort_h_incr.
    - unfold from, below in *. rewrite Forall_forall in *. intros x Hx. unfold in_range.
      specialize (F2 _ Hx). specialize (B2 _ Hx).
      rewrite Hcs, chrs_size_app in He.
      apply andb_true_intro. split; apply N.leb_le; subst h'; lia.
    - eapply Forall_impl; [|exact Hbel]. cbn beta. intros x Hx. unfold in_range.
      replace (st <=? fst x) with false by (symmetry; apply N.leb_gt; lia). reflexivity. }
  unfold server_step. unfold srv_type.
  replace (range_invalid st e) with false.
  2:{ symmetry. unfold range_invalid. apply orb_false_intro; [apply N.eqb_neq | apply N.ltb_ge]; subst e; lia. }
  rewrite Hfilter.
  destruct cs' as [|x r]; [reflexivity|].
  inversion Hwf as [|? ? [Hu _] _]; subst.
  assert (Hmax : (1 <= (s_cmtu s - 2) / (length (c_uuid x) + 5))%nat) by (apply max_items_pos; auto; lia).
  assert (Hne : decls h' (x :: r) <> []) by (cbn [decls]; discriminate).
  destruct (ssp_firstn (fun y : N * attr => length (own_uuid (snd y))) _ _ Hne Hmax) as (k & Hk & Hs).
  rewrite decls_length in Hk.
  exists k. split; [lia|].
  rewrite <- map_titem_decls, <- decls_firstn, <- Hs.
  cbn [decls snd own_uuid].
  destruct k as [|k]; [lia|].
  change ((h', ADecl (c_props x) (h' + 1) (c_uuid x)) :: decls (h' + chr_size x) r) with (decls h' (x :: r)).
  rewrite Hs. cbn [decls firstn map]. reflexivity.
Qed.

Lemma disc_chars_spec s mtu cm a sv :
  crashed s = false -> (23 <= s_cmtu s)%nat ->
  block (sdb s) (svc_db a sv) a (a + svc_size sv - 1) ->
  Forall wf_chr (s_chrs sv) -> 1 <= a -> a + svc_size sv <= 65535 ->
  forall n cs' cd acc fuel st,
    s_chrs sv = cd ++ cs' -> (length cs' <= n)%nat -> (n < fuel)%nat ->
    a <= st -> st <= a + 1 + chrs_size cd -> below st (decls (a + 1) cd) ->
    disc_chars fuel st (a + svc_size sv - 1) acc (mkc mtu cm [] false) s
    = (Ok (acc ++ shape0_chrs (a + 1 + chrs_size cd) cs'), mkc mtu cm [] false, s).
Proof.
  intros Hc Hm Hb Hwf Ha Hmax.
  set (e := a + svc_size sv - 1).
  assert (He : e + 1 = a + 1 + chrs_size (s_chrs sv)) by (subst e; unfold svc_size; lia).
  induction n as [|n IH]; intros cs' cd acc fuel st Hcs Hlen Hfuel Hst Hsth Hbel;
    (destruct fuel as [|f]; [lia|]); cbn [disc_chars].
  - destruct cs'; [|cbn [length] in Hlen; lia]. cbn [shape0_chrs]. rewrite app_nil_r.
    destruct (N.ltb e st) eqn:E; [reflexivity|]. apply N.ltb_ge in E.
    pose proof (srv_type_spec s a sv cd [] st Hc Hm Hb Hcs ltac:(constructor) Ha Hst E Hsth Hbel) as Hsrv.
    cbv zeta in Hsrv. fold e in Hsrv.
    unfold xfer. cbn [encodable]. rewrite !fits16_N by (subst e; lia). cbn [andb]. rewrite Hsrv.
    cbn [deliver]. unfold wait, set_q, mkc. cbn [c_q c_mtu c_cmtu c_locked app wait_in is_cmd_err acc_type is_err].
    reflexivity.
  - assert (Hwf' : Forall wf_chr cs') by (rewrite Hcs in Hwf; apply Forall_app in Hwf; tauto).
    destruct (N.ltb e st) eqn:E.
    + (* the loop condition fails: nothing can remain *)
      apply N.ltb_lt in E. destruct cs' as [|x r]; [cbn [shape0_chrs]; now rewrite app_nil_r|].
      exfalso. rewrite Hcs, chrs_size_app in He. cbn [chrs_size fold_right] in He.
      pose proof (chr_size_ge x). lia.
    + apply N.ltb_ge in E.
      pose proof (srv_type_spec s a sv cd cs' st Hc Hm Hb Hcs Hwf' Ha Hst E Hsth Hbel) as Hsrv.
      cbv zeta in Hsrv. fold e in Hsrv.
      unfold xfer. cbn [encodable]. rewrite !fits16_N by (subst e; lia). cbn [andb].
      destruct cs' as [|x r].
      * rewrite Hsrv. cbn [deliver]. unfold wait, set_q, mkc.
        cbn [c_q c_mtu c_cmtu c_locked app wait_in is_cmd_err acc_type is_err shape0_chrs].
        now rewrite app_nil_r.
      * destruct Hsrv as (k & Hk & Hsrv). rewrite Hsrv.
        cbn [deliver]. unfold wait, set_q, mkc. cbn [c_q c_mtu c_cmtu c_locked app wait_in is_cmd_err acc_type is_err].
        rewrite type_items_spec.
        change {| c_mtu := mtu; c_cmtu := cm; c_q := []; c_locked := false |} with (mkc mtu cm [] false).
        set (h' := a + 1 + chrs_size cd) in *.
        destruct (next_start_bounds (firstn k (x :: r)) h' st Hsth) as (N1 & N2 & N3).
        rewrite (IH (skipn k (x :: r)) (cd ++ firstn k (x :: r))).
        -- rewrite <- app_assoc. do 3 f_equal.
           rewrite chrs_size_app. fold h'.
           assert (Es : shape0_chrs h' (x :: r)
                        = shape0_chrs h' (firstn k (x :: r)) ++ shape0_chrs (h' + chrs_size (firstn k (x :: r))) (skipn k (x :: r)))
             by (rewrite <- shape0_chrs_app, firstn_skipn; reflexivity).
           rewrite Es. replace (a + 1 + (chrs_size cd + chrs_size (firstn k (x :: r)))) with (h' + chrs_size (firstn k (x :: r))) by (subst h'; lia).
           reflexivity.
        -- rewrite <- app_assoc, firstn_skipn. exact Hcs.
        -- rewrite skipn_length. cbn [length] in *. lia.
        -- lia.
        -- lia.
        -- rewrite chrs_size_app. subst h'. lia.
        -- rewrite decls_app. apply below_app. split; [eapply below_mono; [exact Hbel|lia] | exact N3].
Qed.

(** * Phase 3: descriptors of a characteristic *)

Lemma filter_block' D B lo hi st e :
  block D B lo hi -> lo <= st -> e <= hi ->
  filter (in_range st e) D = filter (in_range st e) B.
Proof.
  intros Hb H1 H2. pose proof (filter_block D B lo hi st e (fun _ => true) Hb H1 H2) as H.
  cbn [andb] in H. exact H.
Qed.

Lemma type_uuid_desc d : type_uuid (desc_attr d) = desc_type d.
Proof. unfold desc_attr, desc_type. destruct (d_cccd d); reflexivity. Qed.

Lemma map_info_descs h ds :
  map (fun y : N * attr => (fst y, type_uuid (snd y))) (serve_descs h ds) = shape_descs h ds.
Proof.
  revert h. induction ds as [|d r IH]; intros h; cbn [serve_descs map shape_descs fst snd]; [reflexivity|].
  now rewrite type_uuid_desc, IH.
Qed.

Lemma serve_descs_firstn k h ds : firstn k (serve_descs h ds) = serve_descs h (firstn k ds).
Proof.
  revert h ds. induction k as [|k IH]; intros h [|d r]; cbn [firstn serve_descs]; try reflexivity.
  now rewrite IH.
Qed.

Lemma serve_descs_length h ds : length (serve_descs h ds) = length ds.
Proof. revert h. induction ds as [|d r IH]; intros h; cbn [serve_descs length]; auto. Qed.

Lemma shape_descs_app h d1 d2 :
  shape_descs h (d1 ++ d2) = shape_descs h d1 ++ shape_descs (h + N.of_nat (length d1)) d2.
Proof. rewrite <- !map_info_descs, serve_descs_app, map_app. reflexivity. Qed.

Lemma lookup_incr_in l k a : incr l -> In (k, a) l -> lookup l k = Some a.
Proof.
  induction 1 as [|x l Hf Hi IH]; intros Hin; [contradiction|].
  destruct x as [k0 a0]. cbn [lookup]. destruct Hin as [E|Hin].
  - injection E as -> ->. now rewrite N.eqb_refl.
  - unfold from in Hf. rewrite Forall_forall in Hf. specialize (Hf _ Hin). cbn [fst] in Hf.
    replace (N.eqb k0 k) with false by (symmetry; apply N.eqb_neq; lia). auto.
Qed.

(** every handle of a Find Information item can be read: the attribute is a descriptor *)
Definition all_readable (D : db) (items : list (N * bytes)) : Prop :=
  Forall (fun it => fst it <> 65535 /\ fst it < 65536 /\ exists S, readable_target D (fst it) S) items.

Lemma descs_all_readable D h ds lo hi :
  block D (serve_descs h ds) lo hi -> lo <= h -> h + N.of_nat (length ds) <= hi + 1 ->
  1 <= h -> hi < 65535 ->
  all_readable D (shape_descs h ds).
Proof.
  intros Hb Hlo Hhi H1 H65.
  destruct (serve_descs_bounds h ds) as (F & B & I).
  unfold all_readable. rewrite Forall_forall. intros [k u] Hin. cbn [fst].
  rewrite <- map_info_descs in Hin. apply in_map_iff in Hin as ([k' a] & E & Hin). cbn [fst snd] in E.
  injection E as -> Eu.
  unfold from, below in F, B. rewrite Forall_forall in F, B.
  pose proof (F _ Hin) as Fk. pose proof (B _ Hin) as Bk. cbn [fst] in Fk, Bk.
  split; [lia|]. split; [lia|].
  assert (Hlk : lookup D k = Some a).
  { rewrite (lookup_block D _ lo hi k Hb) by lia. now apply lookup_incr_in. }
  assert (Hd : exists d, a = desc_attr d).
  { clear - Hin. revert h Hin. induction ds as [|d r IH]; intros h Hin; [contradiction|].
    cbn [serve_descs] in Hin. destruct Hin as [E|Hin]; [injection E as _ <-; eauto | eauto]. }
  destruct Hd as [d ->]. unfold desc_attr in Hlk.
  destruct (d_cccd d).
  - exists (d_val d). split; [lia|]. right. left. exact Hlk.
  - exists (d_val d). split; [lia|]. right. right. eauto.
Qed.

Lemma last_indep {A} (l : list A) a b : l <> [] -> last l a = last l b.
Proof.
  induction l as [|x r IH]; intros H; [congruence|].
  destruct r; [reflexivity|]. cbn [last] in *. apply IH. discriminate.
Qed.

Lemma info_items_spec c s mtu items : forall h0 acc,
  clean c s mtu -> all_readable (sdb s) items ->
  info_items items h0 acc c s
  = (Ok (acc ++ items, last (map fst items) h0, false), c, s).
Proof.
  induction items as [|[h u] r IH]; intros h0 acc Hcl Hall; cbn [info_items map last].
  - now rewrite app_nil_r.
  - inversion Hall as [|? ? (H1 & H2 & S & HS) Hr]; subst. cbn [fst] in *.
    replace (N.eqb h 65535) with false by (symmetry; now apply N.eqb_neq).
    rewrite (read_returns_prefix c s mtu h S Hcl H2 HS).
    rewrite IH by assumption. rewrite <- app_assoc. cbn [app fst].
    destruct r as [|p r]; [reflexivity|]. cbn [map].
    rewrite (last_indep (fst p :: map fst r) h h0) by discriminate. reflexivity.
Qed.

Lemma last_shape_descs ds : forall h h0, ds <> [] ->
  last (map fst (shape_descs h ds)) h0 = h + N.of_nat (length ds) - 1.
Proof.
  induction ds as [|d r IH]; intros h h0 Hne; [congruence|].
  cbn [shape_descs map fst length]. destruct r as [|d' r'].
  - cbn [shape_descs map last length]. lia.
  - change (last (h :: map fst (shape_descs (h + 1) (d' :: r'))) h0)
      with (last (map fst (shape_descs (h + 1) (d' :: r'))) h0).
    rewrite IH by discriminate. cbn [length]. lia.
Qed.

(** what the server answers to Find Information inside a characteristic: descriptors [dd]
    already consumed, [ds'] still to come; [b] = handle of the first descriptor *)
Lemma srv_info_spec s b ds dd ds' lo hi :
  crashed s = false -> (23 <= s_cmtu s)%nat ->
  block (sdb s) (serve_descs b ds) lo hi -> lo <= b -> hi + 1 = b + N.of_nat (length ds) ->
  ds = dd ++ ds' -> Forall wf_desc ds' -> 1 <= b -> hi < 65535 -> ds' <> [] ->
  let st := b + N.of_nat (length dd) in
  exists k, (1 <= k <= length ds')%nat /\
    server_step s (QInfo st hi) = (s, Some (RInfo (shape_descs st (firstn k ds')))).
Proof.
  intros Hc Hm Hb Hlo Hhi Hds Hwf H1 H65 Hne st.
  assert (Hlen : length ds = (length dd + length ds')%nat) by (rewrite Hds, app_length; reflexivity).
  assert (Hfilter : sort_h (filter (in_range st hi) (sdb s)) = serve_descs st ds').
  { rewrite (filter_block' _ _ lo hi st hi Hb) by (subst st; lia).
    rewrite Hds, serve_descs_app, filter_app. fold st.
    destruct (serve_descs_bounds b dd) as (_ & B1 & _).
    destruct (serve_descs_bounds st ds') as (F2 & B2 & I2).
    rewrite (filter_false _ (serve_descs b dd)), (filter_true _ (serve_descs st ds')).
    - cbn [app]. now apply sort_h_incr.
    - unfold from, below in *. rewrite Forall_forall in *. intros x Hx. unfold in_range.
      specialize (F2 _ Hx). specialize (B2 _ Hx).
      apply andb_true_intro. split; apply N.leb_le; subst st; lia.
    - eapply Forall_impl; [|exact B1]. cbn beta. intros x Hx. unfold in_range. fold st in Hx.
      replace (st <=? fst x) with false by (symmetry; apply N.leb_gt; lia). reflexivity. }
  unfold server_step. unfold srv_info.
  assert (Hnz : length ds' <> 0%nat) by (destruct ds'; [congruence|discriminate]).
  replace (range_invalid st hi) with false.
  2:{ symmetry. unfold range_invalid. apply orb_false_intro; [apply N.eqb_neq | apply N.ltb_ge]; subst st; lia. }
  rewrite Hfilter.
  destruct ds' as [|x r]; [congruence|].
  inversion Hwf as [|? ? Hu _]; subst. unfold wf_desc in Hu.
  assert (Hmax : (1 <= (s_cmtu s - 2) / (length (desc_type x) + 2))%nat) by (apply max_items_pos; auto; lia).
  assert (Hne' : serve_descs st (x :: r) <> []) by (cbn [serve_descs]; discriminate).
  destruct (ssp_firstn (fun y : N * attr => length (type_uuid (snd y))) _ _ Hne' Hmax) as (k & Hk & Hs).
  rewrite serve_descs_length in Hk.
  exists k. split; [lia|].
  rewrite <- map_info_descs, <- serve_descs_firstn, <- Hs.
  cbn [serve_descs snd]. rewrite type_uuid_desc. reflexivity.
Qed.

Lemma disc_descs_spec s mtu cm b ds lo hi :
  crashed s = false -> wq s = [] -> s_cmtu s = mtu -> (23 <= mtu)%nat ->
  block (sdb s) (serve_descs b ds) lo hi -> lo <= b -> hi + 1 = b + N.of_nat (length ds) ->
  Forall wf_desc ds -> 1 <= b -> hi < 65535 ->
  forall n ds' dd acc fuel,
    ds = dd ++ ds' -> (length ds' <= n)%nat -> (n < fuel)%nat ->
    disc_descs fuel (b + N.of_nat (length dd)) hi acc (mkc mtu cm [] false) s
    = (Ok (acc ++ shape_descs (b + N.of_nat (length dd)) ds'), mkc mtu cm [] false, s).
Proof.
  intros Hc Hwq Hmtu Hm Hb Hlo Hhi Hwf H1 H65.
  assert (Hcl : clean (mkc mtu cm [] false) s mtu) by (constructor; cbn; auto).
  assert (Hall : all_readable (sdb s) (shape_descs b ds)).
  { eapply descs_all_readable; eauto. lia. }
  induction n as [|n IH]; intros ds' dd acc fuel Hds Hlen Hfuel;
    (destruct fuel as [|f]; [lia|]); cbn [disc_descs];
    assert (Hl : length ds = (length dd + length ds')%nat) by (rewrite Hds, app_length; reflexivity);
    set (st := b + N.of_nat (length dd)) in *.
  - destruct ds'; [|cbn [length] in Hlen; lia]. cbn [length] in Hl.
    replace (N.ltb hi st) with true by (symmetry; apply N.ltb_lt; subst st; lia).
    cbn [shape_descs]. now rewrite app_nil_r.
  - destruct (N.ltb hi st) eqn:E.
    + apply N.ltb_lt in E. destruct ds' as [|x r]; [cbn [shape_descs]; now rewrite app_nil_r|].
      exfalso. cbn [length] in Hl. subst st. lia.
    + apply N.ltb_ge in E.
      assert (Hne : ds' <> []) by (intros ->; cbn [length] in Hl; subst st; lia).
      assert (Hwf' : Forall wf_desc ds') by (rewrite Hds in Hwf; apply Forall_app in Hwf; tauto).
      destruct (srv_info_spec s b ds dd ds' lo hi Hc ltac:(lia) Hb Hlo Hhi Hds Hwf' H1 H65 Hne) as (k & Hk & Hsrv).
      fold st in Hsrv.
      unfold xfer. cbn [encodable]. rewrite !fits16_N by (subst st; lia). cbn [andb]. rewrite Hsrv.
      cbn [deliver]. unfold wait, set_q, mkc. cbn [c_q c_mtu c_cmtu c_locked app wait_in is_cmd_err acc_info is_err].
      change {| c_mtu := mtu; c_cmtu := cm; c_q := []; c_locked := false |} with (mkc mtu cm [] false).
      assert (Hsplit : shape_descs b ds = shape_descs b dd ++ shape_descs st (firstn k ds')
                                          ++ shape_descs (st + N.of_nat (length (firstn k ds'))) (skipn k ds')).
      { rewrite Hds, shape_descs_app. fold st. f_equal. rewrite <- shape_descs_app, firstn_skipn. reflexivity. }
      assert (Hall' : all_readable (sdb s) (shape_descs st (firstn k ds'))).
      { unfold all_readable in *. rewrite Hsplit in Hall. apply Forall_app in Hall as [_ Hall].
        apply Forall_app in Hall as [Hall _]. exact Hall. }
      rewrite (info_items_spec _ _ mtu _ st acc Hcl Hall').
      assert (Hfk : length (firstn k ds') = k) by (rewrite firstn_length; lia).
      rewrite last_shape_descs by (destruct ds'; [congruence|]; destruct k; [lia|discriminate]).
      rewrite Hfk.
      replace (st + N.of_nat k - 1 + 1) with (b + N.of_nat (length (dd ++ firstn k ds')))
        by (rewrite app_length, Hfk; subst st; lia).
      rewrite (IH (skipn k ds') (dd ++ firstn k ds')).
      * rewrite <- app_assoc. do 3 f_equal.
        rewrite app_length, Hfk.
        assert (Es : shape_descs st ds' = shape_descs st (firstn k ds') ++ shape_descs (st + N.of_nat k) (skipn k ds')).
        { rewrite <- Hfk at 2. rewrite <- shape_descs_app, firstn_skipn. reflexivity. }
        rewrite Es. replace (b + N.of_nat (length dd + k)) with (st + N.of_nat k) by (subst st; lia). reflexivity.
      * rewrite <- app_assoc, firstn_skipn. exact Hds.
      * rewrite skipn_length. lia.
      * lia.
Qed.

(** * Assembling the phases *)

Fixpoint shape1_svcs (h : N) (ss : list svc) : list dsvc :=
  match ss with
  | [] => []
  | s :: r => {| ds_uuid := s_uuid s; ds_start := h; ds_end := h + svc_size s - 1;
                 ds_chrs := shape0_chrs (h + 1) (s_chrs s) |} :: shape1_svcs (h + svc_size s) r
  end.

Lemma svc_end_after_id cs : forall h m, h + chrs_size cs <= m + 1 ->
  svc_end_after m (shape0_chrs h cs) = m.
Proof.
  unfold svc_end_after.
  induction cs as [|c r IH]; intros h m Hb; cbn [shape0_chrs fold_left dc_handle]; [reflexivity|].
  cbn [chrs_size fold_right] in Hb. fold (chrs_size r) in Hb. pose proof (chr_size_ge c).
  replace (N.max m (h + 1)) with m by lia. apply IH. lia.
Qed.

Lemma svc_db_bounds a sv :
  from a (svc_db a sv) /\ below (a + svc_size sv) (svc_db a sv).
Proof.
  unfold svc_db. destruct (serve_chrs_bounds (a + 1) (s_chrs sv)) as (F & B & _).
  pose proof (svc_size_ge sv). split.
  - constructor; [cbn [fst]; lia|]. eapply from_mono; [exact F|lia].
  - constructor; [cbn [fst]; lia|]. eapply below_mono; [exact B|unfold svc_size; lia].
Qed.

(** phase 2 over all the services still to visit *)
Lemma disc_all_chars_spec s mtu cm P fuel :
  crashed s = false -> (23 <= s_cmtu s)%nat -> sdb s = serve P ->
  Forall wf_svc P -> profile_size P < 65535 ->
  (forall sv, In sv P -> (length (s_chrs sv) < fuel)%nat) ->
  forall ss' Pd, P = Pd ++ ss' ->
    disc_all_chars fuel (shape0_svcs (1 + profile_size Pd) ss') (mkc mtu cm [] false) s
    = (Ok (shape1_svcs (1 + profile_size Pd) ss'), mkc mtu cm [] false, s).
Proof.
  intros Hc Hm Hdb Hwf Hsz Hfuel.
  induction ss' as [|sv r IH]; intros Pd HP; cbn [shape0_svcs disc_all_chars shape1_svcs ds_start ds_end ds_uuid];
    [reflexivity|].
  set (a := 1 + profile_size Pd).
  assert (Hin : In sv P) by (rewrite HP; apply in_or_app; right; now left).
  assert (Hwsv : wf_svc sv) by (rewrite Forall_forall in Hwf; auto).
  assert (Hbound : a + svc_size sv <= 65535).
  { rewrite HP, profile_size_app in Hsz. cbn [profile_size fold_right] in Hsz. subst a. lia. }
  pose proof (svc_block Pd sv r) as Hb. cbv zeta in Hb. rewrite <- HP, <- Hdb in Hb. fold a in Hb.
  pose proof (disc_chars_spec s mtu cm a sv Hc Hm Hb (proj2 Hwsv) ltac:(subst a; lia) Hbound
                (length (s_chrs sv)) (s_chrs sv) [] [] fuel a eq_refl (le_n _) (Hfuel _ Hin)
                ltac:(lia) ltac:(cbn [chrs_size fold_right]; lia) ltac:(constructor)) as Hd.
  cbn [chrs_size fold_right app] in Hd. rewrite N.add_0_r in Hd. rewrite Hd.
  rewrite svc_end_after_id by (unfold svc_size; lia).
  assert (Ea : a + svc_size sv = 1 + profile_size (Pd ++ [sv]))
    by (rewrite profile_size_app; cbn [profile_size fold_right]; subst a; lia).
  rewrite Ea at 1 2.
  rewrite (IH (Pd ++ [sv])) by (rewrite <- app_assoc; exact HP).
  rewrite <- Ea. reflexivity.
Qed.

(** handles of the characteristics of a service, as the client sorts them *)
Definition hs (h : N) (cs : list chr) : list N := map dc_handle (shape0_chrs h cs).

Lemma hs_from h cs : Forall (fun x => h <= x) (hs h cs).
Proof.
  unfold hs. revert h. induction cs as [|c r IH]; intros h; cbn [shape0_chrs map dc_handle]; constructor; [lia|].
  pose proof (chr_size_ge c). eapply Forall_impl; [|apply IH]. cbn beta. intros; lia.
Qed.

Lemma insert_N_le x l : Forall (fun y => x <= y) l -> insert_N x l = x :: l.
Proof.
  destruct l as [|y r]; cbn [insert_N]; [reflexivity|]. intros H. inversion H; subst.
  replace (x <=? y) with true by (symmetry; apply N.leb_le; lia). reflexivity.
Qed.

Lemma sort_N_hs h cs : sort_N (hs h cs) = hs h cs.
Proof.
  unfold sort_N, hs. revert h. induction cs as [|c r IH]; intros h; cbn [shape0_chrs map dc_handle fold_right]; [reflexivity|].
  rewrite IH. apply insert_N_le. pose proof (chr_size_ge c).
  eapply Forall_impl; [|apply (hs_from (h + chr_size c) r)]. cbn beta. intros; lia.
Qed.

Lemma end_after_spec c cr send : forall cd h,
  end_after (hs h (cd ++ c :: cr)) (h + chrs_size cd) send
  = Some (match cr with [] => send | _ => h + chrs_size cd + chr_size c - 1 end).
Proof.
  unfold hs. induction cd as [|c0 cd IH]; intros h; cbn [app shape0_chrs map dc_handle end_after chrs_size fold_right].
  - rewrite N.add_0_r, N.eqb_refl. destruct cr; cbn [shape0_chrs map dc_handle]; reflexivity.
  - fold (chrs_size cd). pose proof (chr_size_ge c0).
    replace (N.eqb h (h + (chr_size c0 + chrs_size cd))) with false by (symmetry; apply N.eqb_neq; lia).
    replace (h + (chr_size c0 + chrs_size cd)) with (h + chr_size c0 + chrs_size cd) by lia.
    apply IH.
Qed.

(** the descriptors of one characteristic are a block of the service *)
Lemma descs_block a sv cd c cr :
  s_chrs sv = cd ++ c :: cr ->
  let hc := a + 1 + chrs_size cd in
  block (svc_db a sv) (serve_descs (hc + 2) (c_descs c)) (hc + 2) (hc + chr_size c - 1).
Proof.
  intros Hcs hc. unfold svc_db. rewrite Hcs, serve_chrs_app. fold hc. cbn [serve_chrs].
  exists ((a, APrimary (s_uuid sv) (a + svc_size sv - 1)) :: serve_chrs (a + 1) cd
          ++ [(hc, ADecl (c_props c) (hc + 1) (c_uuid c)); (hc + 1, AValue (c_uuid c) (c_val c))]),
         (serve_chrs (hc + chr_size c) cr).
  split; [|split].
  - cbn [app]. rewrite <- !app_assoc. cbn [app]. reflexivity.
  - destruct (serve_chrs_bounds (a + 1) cd) as (_ & B & _). fold hc in B.
    constructor; [cbn [fst]; subst hc; lia|]. apply below_app. split.
    + eapply below_mono; [exact B|lia].
    + repeat constructor; cbn [fst]; lia.
  - destruct (serve_chrs_bounds (hc + chr_size c) cr) as (F & _ & _).
    eapply from_mono; [exact F|]. pose proof (chr_size_ge c). lia.
Qed.

(** phase 3 inside one service *)
Lemma disc_svc_descs_spec s mtu cm a sv fuel :
  crashed s = false -> wq s = [] -> s_cmtu s = mtu -> (23 <= mtu)%nat ->
  block (sdb s) (svc_db a sv) a (a + svc_size sv - 1) ->
  Forall wf_chr (s_chrs sv) -> 1 <= a -> a + svc_size sv <= 65535 ->
  (forall c, In c (s_chrs sv) -> (length (c_descs c) < fuel)%nat) ->
  forall cs' cd, s_chrs sv = cd ++ cs' ->
    disc_svc_descs fuel (hs (a + 1) (s_chrs sv)) (a + svc_size sv - 1)
                   (shape0_chrs (a + 1 + chrs_size cd) cs') (mkc mtu cm [] false) s
    = (Ok (shape_chrs (a + 1 + chrs_size cd) cs'), mkc mtu cm [] false, s).
Proof.
  intros Hc Hwq Hmtu Hm Hb Hwf Ha Hbound Hfuel.
  induction cs' as [|c cr IH]; intros cd Hcs; cbn [shape0_chrs disc_svc_descs shape_chrs dc_handle dc_vh dc_props dc_uuid];
    [reflexivity|].
  set (hc := a + 1 + chrs_size cd).
  rewrite Hcs at 1. unfold hc at 1. rewrite end_after_spec. fold hc.
  assert (Hend : match cr with [] => a + svc_size sv - 1 | _ => hc + chr_size c - 1 end = hc + chr_size c - 1).
  { destruct cr; [|reflexivity]. unfold svc_size. rewrite Hcs, chrs_size_app. cbn [chrs_size fold_right]. subst hc. lia. }
  rewrite Hend.
  assert (Hin : In c (s_chrs sv)) by (rewrite Hcs; apply in_or_app; right; now left).
  assert (Hwc : wf_chr c) by (rewrite Forall_forall in Hwf; auto).
  assert (Hle : hc + chr_size c <= a + svc_size sv).
  { unfold svc_size. rewrite Hcs, chrs_size_app. cbn [chrs_size fold_right]. fold (chrs_size cr). subst hc. lia. }
  pose proof (chr_size_ge c) as Hc2.
  assert (Hblk : block (sdb s) (serve_descs (hc + 2) (c_descs c)) (hc + 2) (hc + chr_size c - 1)).
  { destruct (svc_db_bounds a sv) as (Fs & Bs).
    eapply (block_trans _ _ _ a (a + svc_size sv - 1)); [exact Hb | exact (descs_block a sv cd c cr Hcs) | subst hc; lia | lia | | exact Fs].
    eapply below_mono; [exact Bs|]. pose proof (svc_size_ge sv). lia. }
  pose proof (disc_descs_spec s mtu cm (hc + 2) (c_descs c) (hc + 2) (hc + chr_size c - 1)
                Hc Hwq Hmtu Hm Hblk ltac:(lia) ltac:(unfold chr_size; lia) (proj2 Hwc) ltac:(lia) ltac:(lia)
                (length (c_descs c)) (c_descs c) [] [] fuel eq_refl (le_n _) (Hfuel _ Hin)) as Hd.
  cbn [length N.of_nat app] in Hd. rewrite N.add_0_r in Hd.
  replace (hc + 1 + 1) with (hc + 2) by lia. rewrite Hd.
  replace (hc + chr_size c) with (a + 1 + chrs_size (cd ++ [c]))
    by (rewrite chrs_size_app; cbn [chrs_size fold_right]; subst hc; lia).
  rewrite (IH (cd ++ [c])) by (rewrite <- app_assoc; exact Hcs).
  reflexivity.
Qed.

(** phase 3 over all services *)
Lemma disc_all_descs_spec s mtu cm P fuel :
  crashed s = false -> wq s = [] -> s_cmtu s = mtu -> (23 <= mtu)%nat -> sdb s = serve P ->
  Forall wf_svc P -> profile_size P < 65535 ->
  (forall sv c, In sv P -> In c (s_chrs sv) -> (length (c_descs c) < fuel)%nat) ->
  forall ss' Pd, P = Pd ++ ss' ->
    disc_all_descs fuel (shape1_svcs (1 + profile_size Pd) ss') (mkc mtu cm [] false) s
    = (Ok (shape_svcs (1 + profile_size Pd) ss'), mkc mtu cm [] false, s).
Proof.
  intros Hc Hwq Hmtu Hm Hdb Hwf Hsz Hfuel.
  induction ss' as [|sv r IH]; intros Pd HP;
    cbn [shape1_svcs disc_all_descs shape_svcs ds_start ds_end ds_uuid ds_chrs]; [reflexivity|].
  set (a := 1 + profile_size Pd).
  assert (Hin : In sv P) by (rewrite HP; apply in_or_app; right; now left).
  assert (Hwsv : wf_svc sv) by (rewrite Forall_forall in Hwf; auto).
  assert (Hbound : a + svc_size sv <= 65535).
  { rewrite HP, profile_size_app in Hsz. cbn [profile_size fold_right] in Hsz. subst a. lia. }
  pose proof (svc_block Pd sv r) as Hb. cbv zeta in Hb. rewrite <- HP, <- Hdb in Hb. fold a in Hb.
  fold (hs (a + 1) (s_chrs sv)). rewrite sort_N_hs.
  pose proof (disc_svc_descs_spec s mtu cm a sv fuel Hc Hwq Hmtu Hm Hb (proj2 Hwsv) ltac:(subst a; lia) Hbound
                (fun c Hc' => Hfuel sv c Hin Hc') (s_chrs sv) [] eq_refl) as Hd.
  cbn [chrs_size fold_right] in Hd. rewrite N.add_0_r in Hd. rewrite Hd.
  replace (a + svc_size sv) with (1 + profile_size (Pd ++ [sv]))
    by (rewrite profile_size_app; cbn [profile_size fold_right]; subst a; lia).
  rewrite (IH (Pd ++ [sv])) by (rewrite <- app_assoc; exact HP).
  reflexivity.
Qed.

(** * Fuel *)

Lemma length_le_chrs_size cs : N.of_nat (length cs) <= chrs_size cs.
Proof.
  induction cs as [|c r IH]; cbn [length chrs_size fold_right]; [lia|].
  fold (chrs_size r). pose proof (chr_size_ge c). lia.
Qed.

Lemma in_chr_size_le c cs : In c cs -> chr_size c <= chrs_size cs.
Proof.
  induction cs as [|c0 r IH]; [contradiction|]. cbn [chrs_size fold_right]. fold (chrs_size r).
  intros [->|H]; [lia|]. specialize (IH H). lia.
Qed.

Lemma length_le_profile_size p : N.of_nat (length p) <= profile_size p.
Proof.
  induction p as [|s r IH]; cbn [length profile_size fold_right]; [lia|].
  fold (profile_size r). pose proof (svc_size_ge s). lia.
Qed.

Lemma in_svc_size_le s p : In s p -> svc_size s <= profile_size p.
Proof.
  induction p as [|s0 r IH]; [contradiction|]. cbn [profile_size fold_right]. fold (profile_size r).
  intros [->|H]; [lia|]. specialize (IH H). lia.
Qed.

Lemma serve_descs_len h ds : length (serve_descs h ds) = length ds.
Proof. apply serve_descs_length. Qed.

Lemma serve_chrs_len cs : forall h, N.of_nat (length (serve_chrs h cs)) = chrs_size cs.
Proof.
  induction cs as [|c r IH]; intros h; cbn [serve_chrs length chrs_size fold_right]; [reflexivity|].
  fold (chrs_size r). rewrite app_length, serve_descs_length.
  specialize (IH (h + chr_size c)). unfold chr_size in *. lia.
Qed.

Lemma serve_svcs_len ss : forall h, N.of_nat (length (serve_svcs h ss)) = profile_size ss.
Proof.
  induction ss as [|s r IH]; intros h; cbn [serve_svcs length profile_size fold_right]; [reflexivity|].
  fold (profile_size r). rewrite app_length.
  specialize (IH (h + svc_size s)). pose proof (serve_chrs_len (s_chrs s) (h + 1)). unfold svc_size in *. lia.
Qed.

(** * Main theorem *)

Lemma discover_reconstructs_fuel P c s mtu fuel :
  wf_profile P -> clean c s mtu -> sdb s = serve P ->
  (N.to_nat (profile_size P) < fuel)%nat ->
  discover fuel c s = (Ok (shape P), c, s).
Proof.
  intros [Hwf Hsz] [Hl Hq Hwq Hc Hm1 Hm2 Hm] Hdb Hfuel.
  destruct c as [m cm q l]. cbn in Hl, Hq, Hm1. subst l q m.
  change {| c_mtu := mtu; c_cmtu := cm; c_q := []; c_locked := false |} with (mkc mtu cm [] false).
  unfold discover. cbn [mkc c_locked].
  change {| c_mtu := mtu; c_cmtu := cm; c_q := []; c_locked := false |} with (mkc mtu cm [] false).
  assert (F1 : (length P < fuel)%nat) by (pose proof (length_le_profile_size P); lia).
  assert (F2 : forall sv, In sv P -> (length (s_chrs sv) < fuel)%nat).
  { intros sv Hin. pose proof (in_svc_size_le _ _ Hin). pose proof (length_le_chrs_size (s_chrs sv)).
    unfold svc_size in *. lia. }
  assert (F3 : forall sv ch, In sv P -> In ch (s_chrs sv) -> (length (c_descs ch) < fuel)%nat).
  { intros sv ch Hin Hin2. pose proof (in_svc_size_le _ _ Hin). pose proof (in_chr_size_le _ _ Hin2).
    unfold svc_size, chr_size in *. lia. }
  pose proof (disc_primary_spec s mtu cm P Hc ltac:(lia) Hdb Hwf Hsz (length P) P [] [] fuel eq_refl (le_n _) F1) as H1.
  pose proof (disc_all_chars_spec s mtu cm P fuel Hc ltac:(lia) Hdb Hwf Hsz F2 P [] eq_refl) as H2.
  pose proof (disc_all_descs_spec s mtu cm P fuel Hc Hwq Hm2 Hm Hdb Hwf Hsz F3 P [] eq_refl) as H3.
  cbn [profile_size fold_right app] in H1, H2, H3. rewrite N.add_0_r in H1, H2, H3.
  rewrite H1, H2, H3. reflexivity.
Qed.

Lemma discover_reconstructs P c s mtu :
  wf_profile P -> clean c s mtu -> sdb s = serve P ->
  discover (disc_fuel s) c s = (Ok (shape P), c, s).
Proof.
  intros Hwf Hcl Hdb. apply discover_reconstructs_fuel with (mtu := mtu); try assumption.
  unfold disc_fuel. rewrite Hdb. unfold serve.
  pose proof (serve_svcs_len P 1). lia.
Qed.

(** from a fresh connection, after the MTU exchange the client performs *)
Lemma discover_after_connect P mtu :
  wf_profile P -> (23 <= mtu)%nat -> (N.of_nat mtu < 65536) ->
  let '(c, s) := connect (serve P) mtu in
  discover (disc_fuel s) c s = (Ok (shape P), c, s).
Proof.
  intros Hwf Hm H16. unfold connect.
  destruct (Nat.eqb mtu 23) eqn:E.
  - apply Nat.eqb_eq in E. subst mtu.
    apply discover_reconstructs with (mtu := 23%nat); [assumption | apply clean_init | reflexivity].
  - destruct (set_mtu_spec client_init (server_init (serve P)) 23 mtu (clean_init _) Hm H16)
      as (c' & s' & He & Hcl & Hdb).
    rewrite He. apply discover_reconstructs with (mtu := mtu); assumption.
Qed.

(** a start handle of 0 is refused by the server: the client raises, it does not loop *)
Lemma disc_primary_invalid_start s mtu cm f acc :
  crashed s = false ->
  disc_primary (S f) 0 acc (mkc mtu cm [] false) s
  = (Raise (EAtt E_INVALID_HANDLE), mkc mtu cm [] false, s).
Proof.
  intros Hc. cbn [disc_primary]. unfold xfer. cbn [encodable fits16 N.ltb N.compare andb].
  unfold server_step. unfold srv_group. cbn [range_invalid N.eqb orb].
  cbn [deliver]. unfold wait, set_q, mkc. cbn [c_q c_mtu c_cmtu c_locked app wait_in is_cmd_err acc_group is_err].
  reflexivity.
Qed.

Lemma serve_handles P :
  from 1 (serve P) /\ below (1 + profile_size P) (serve P) /\ incr (serve P)
  /\ N.of_nat (length (serve P)) = profile_size P.
Proof.
  unfold serve. destruct (serve_svcs_bounds 1 P) as (F & B & I).
  repeat split; auto. apply serve_svcs_len.
Qed.

(** a profile mixing 16- and 128-bit UUIDs at every level *)
Definition p_mixed : profile :=
  let u128 := repeat 7 16 in
  [ {| s_uuid := [0; 24]; s_chrs :=
        [ {| c_uuid := [0; 42]; c_props := 10; c_val := [65]; c_descs :=
               [ {| d_cccd := false; d_uuid := [1; 41]; d_val := [97] |};
                 {| d_cccd := false; d_uuid := u128; d_val := [98] |};
                 {| d_cccd := true; d_uuid := [2; 41]; d_val := [0; 0] |} ] |};
          {| c_uuid := u128; c_props := 2; c_val := []; c_descs := [] |};
          {| c_uuid := [1; 42]; c_props := 18; c_val := [1]; c_descs := [] |} ] |};
    {| s_uuid := u128; s_chrs := [] |};
    {| s_uuid := [15; 24]; s_chrs := [ {| c_uuid := u128; c_props := 2; c_val := [100]; c_descs := [] |} ] |} ].

Lemma p_mixed_wf : wf_profile p_mixed.
Proof.
  split; [|reflexivity].
  repeat (constructor; unfold wf_svc, wf_chr, wf_desc, uuid_ok; cbn; auto).
Qed.

Lemma nonvacuous :
  wf_profile p_mixed /\ clean client_init (server_init (serve p_mixed)) 23
  /\ profile_size p_mixed = 14
  /\ discover_ok p_mixed 23 = true /\ discover_ok p_mixed 64 = true.
Proof.
  split; [exact p_mixed_wf|]. split; [apply clean_init|]. repeat split; vm_compute; reflexivity.
Qed.
