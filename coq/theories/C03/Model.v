(** C03 — executable record-level model of the hub packet <-> message translation:
    [to_packet] / [from_packet] of every packet-carrying wrapper class of
    whad/hub/{ble,dot15d4,esb,unifying}/pdu.py and whad/hub/phy/packet.py, the per-domain
    [convert_packet] (whad/hub/<domain>/__init__.py) and [ProtocolHub.convert_packet]
    (whad/hub/__init__.py), transcribed branch by branch from the (repaired) Python.

    - a message is a record of the protobuf fields of its wrapper; a protobuf-optional
      item is an [option], the others are plain values;
    - a packet is [{ top layer; link-layer payload class under BTLE; bytes(pkt); metadata }]
      where every metadata item is an [option] ([None] = Python [None]); a missing
      [metadata] attribute is [p_md = None];
    - scapy is the Section variable [codec : layer -> bytes -> cres]
      ([bytes(Layer(b))], [struct.error], or another exception). No hypothesis is made on
      it: "well-formed PDU" is DEFINED as [codec k b = COk b _] (scapy rebuilds exactly the
      bytes it dissected);
    - Python exceptions are values: [Ok v | NoneR | Raise cls];
    - every method is [X_body] (the Python body) wrapped by its decorator: [failsafe_to] =
      dissect_failsafe on to_packet (struct.error, ValueError -> None), [failsafe] =
      convert_failsafe on from_packet (struct.error, TypeError, AttributeError, ValueError -> None).
    No proofs in this file. *)
From Coq Require Import List NArith ZArith Bool.
From Whad Require Import Lib.Bytes.
Import ListNotations.
Open Scope Z_scope.

(** ** Outcomes *)
Inductive exn := TypeError | AttributeError | ValueError | StructError | IndexError | NameError
               | OtherError | CodecMissing.
Inductive out (A : Type) := Ok (a : A) | NoneR | Raise (e : exn).
Arguments Ok {A} a. Arguments NoneR {A}. Arguments Raise {A} e.

Definition bind {A B} (x : out A) (f : A -> out B) : out B :=
  match x with Ok a => f a | NoneR => NoneR | Raise e => Raise e end.
Notation "'do' x <- a ; b" := (bind a (fun x => b)) (at level 200, x name, a at level 100, b at level 200).

(** [dissect_failsafe] (to_packet: struct.error and ValueError become None) and [convert_failsafe]
    (from_packet: struct.error, TypeError, AttributeError and ValueError become None) of whad/hub/message.py *)
Definition caught_to (e : exn) : bool := match e with StructError | ValueError => true | _ => false end.
Definition caught_from (e : exn) : bool :=
  match e with StructError | TypeError | AttributeError | ValueError => true | _ => false end.
Definition failsafe_to {A} (x : out A) : out A :=
  match x with Raise e => if caught_to e then NoneR else Raise e | _ => x end.
Definition failsafe {A} (x : out A) : out A :=
  match x with Raise e => if caught_from e then NoneR else Raise e | _ => x end.

(** ** Layers and the scapy codec *)
Inductive layer :=
  | LBtle | LBtleData | LBtleCtrl | LBtleAdv
  | LAdvInd | LAdvDirect | LAdvNonconn | LAdvScanInd | LScanRsp
  | LDot15d4 | LDot15d4FCS | LDot15d4Raw
  | LEsbHdr | LEsbPayload | LUniHdr | LUniPayload
  | LPhy | LRaw.

Definition layer_eqb (a b : layer) : bool :=
  match a, b with
  | LBtle, LBtle | LBtleData, LBtleData | LBtleCtrl, LBtleCtrl | LBtleAdv, LBtleAdv
  | LAdvInd, LAdvInd | LAdvDirect, LAdvDirect | LAdvNonconn, LAdvNonconn | LAdvScanInd, LAdvScanInd
  | LScanRsp, LScanRsp | LDot15d4, LDot15d4 | LDot15d4FCS, LDot15d4FCS | LDot15d4Raw, LDot15d4Raw
  | LEsbHdr, LEsbHdr | LEsbPayload, LEsbPayload | LUniHdr, LUniHdr | LUniPayload, LUniPayload
  | LPhy, LPhy | LRaw, LRaw => true
  | _, _ => false
  end.

(** [COk b sub]: dissection succeeded, [bytes(Layer(input)) = b], [sub] is the class of the
    first payload layer when it matters (BTLE_DATA / BTLE_ADV under BTLE), else [LRaw]. *)
Inductive cres := COk (b : bytes) (sub : layer) | CStruct | CExc (e : exn).

(** ** Metadata (whad/hub/metadata.py + the per-domain dataclasses), every item an option *)
Inductive mdcls := MdBle | MdD15 | MdEsb | MdUni | MdPhy | MdOther.
Definition mdcls_eqb (a b : mdcls) : bool :=
  match a, b with
  | MdBle, MdBle | MdD15, MdD15 | MdEsb, MdEsb | MdUni, MdUni | MdPhy, MdPhy | MdOther, MdOther => true
  | _, _ => false
  end.

Record metadata := {
  md_cls : mdcls;
  md_raw : option bool;
  md_decrypted : option bool;
  md_timestamp : option Z;
  md_channel : option Z;
  md_rssi : option Z;
  md_direction : option Z;            (* BLE *)
  md_conn : option Z;                 (* BLE connection_handle *)
  md_valid : option bool;             (* is_crc_valid / is_fcs_valid *)
  md_rel_ts : option Z;               (* BLE relative_timestamp *)
  md_encrypt : option bool;           (* BLE *)
  md_processed : option (option bool);(* BLE, attribute added on the fly: None = attribute missing *)
  md_lqi : option Z;                  (* 802.15.4 *)
  md_address : option bytes;          (* ESB / Unifying, "aa:bb:.." string <-> bytes *)
  md_retr : option (option Z);        (* ESB / Unifying retransmission_count, attribute added on the fly *)
  md_frequency : option Z;            (* PHY *)
  md_endianness : option Z;
  md_deviation : option Z;
  md_datarate : option Z;
  md_modulation : option Z;
  md_syncword : option bytes
}.

Definition md_empty (c : mdcls) : metadata :=
  {| md_cls := c; md_raw := None; md_decrypted := None; md_timestamp := None; md_channel := None;
     md_rssi := None; md_direction := None; md_conn := None; md_valid := None; md_rel_ts := None;
     md_encrypt := match c with MdBle => Some false | _ => None end;
     md_processed := None; md_lqi := None; md_address := None; md_retr := None; md_frequency := None;
     md_endianness := None; md_deviation := None; md_datarate := None; md_modulation := None;
     md_syncword := None |}.

(** ** Packets *)
Record packet := {
  p_top : layer;        (* class of the outermost layer *)
  p_sub : layer;        (* class of the payload of a BTLE top layer (LBtleData / LBtleAdv), else LRaw *)
  p_bytes : bytes;      (* bytes(packet) *)
  p_md : option metadata  (* None: the packet has no [metadata] attribute *)
}.

(** ** protobuf setters: [None] -> TypeError, out of range -> ValueError *)
Definition two32 : Z := 4294967296.
Definition two31 : Z := 2147483648.
Definition two64 : Z := 18446744073709551616.
Definition in_u32 (z : Z) : bool := (0 <=? z) && (z <? two32).
Definition in_u64 (z : Z) : bool := (0 <=? z) && (z <? two64).
Definition in_i32 (z : Z) : bool := (- two31 <=? z) && (z <? two31).

Definition set_u32 (v : option Z) : out Z :=
  match v with None => Raise TypeError | Some z => if in_u32 z then Ok z else Raise ValueError end.
Definition set_u64 (v : option Z) : out Z :=
  match v with None => Raise TypeError | Some z => if in_u64 z then Ok z else Raise ValueError end.
Definition set_i32 (v : option Z) : out Z :=
  match v with None => Raise TypeError | Some z => if in_i32 z then Ok z else Raise ValueError end.
Definition set_bool (v : option bool) : out bool :=
  match v with None => Raise TypeError | Some b => Ok b end.
Definition set_bytes (v : option bytes) : out bytes :=
  match v with None => Raise TypeError | Some b => Ok b end.

(** optional item: skipped when [None] (the [if x is not None: msg.f = x] idiom) *)
Definition opt_u64 (v : option Z) : out (option Z) :=
  match v with None => Ok None | Some z => if in_u64 z then Ok (Some z) else Raise ValueError end.
Definition opt_u32 (v : option Z) : out (option Z) :=
  match v with None => Ok None | Some z => if in_u32 z then Ok (Some z) else Raise ValueError end.
Definition opt_i32 (v : option Z) : out (option Z) :=
  match v with None => Ok None | Some z => if in_i32 z then Ok (Some z) else Raise ValueError end.

(** [packet.metadata]: AttributeError when the attribute does not exist *)
Definition get_md (p : packet) : out metadata :=
  match p_md p with Some m => Ok m | None => Raise AttributeError end.

(** ** Byte helpers *)
Definition zb (n : N) : Z := Z.of_N n.
Definition bz (z : Z) : N := Z.to_N (z mod 256).

Definition le32z (z : Z) : bytes := [bz z; bz (z / 256); bz (z / 65536); bz (z / 16777216)].
Definition be24z (z : Z) : bytes := [bz (z / 65536); bz (z / 256); bz z].
Definition le16z (z : Z) : bytes := [bz z; bz (z / 256)].
Definition un_le32z (l : bytes) : Z :=
  match l with a :: b :: c :: d :: _ => zb a + 256 * zb b + 65536 * zb c + 16777216 * zb d | _ => 0 end.
Definition un_be24z (l : bytes) : Z :=
  match l with a :: b :: c :: _ => 65536 * zb a + 256 * zb b + zb c | _ => 0 end.
Definition un_le16z (l : bytes) : Z :=
  match l with a :: b :: _ => zb a + 256 * zb b | _ => 0 end.

Definition lastn (n : nat) (l : bytes) : bytes := skipn (length l - n) l.
Definition butlastn (n : nat) (l : bytes) : bytes := firstn (length l - n) l.

Definition ADV_AA : Z := 2391391958.   (* 0x8E89BED6 *)

Section Codec.
Variable codec : layer -> bytes -> cres.

(** "well-formed PDU" = scapy rebuilds exactly what it dissected *)
Definition wf_pdu (k : layer) (b : bytes) : bool :=
  match codec k b with COk b' _ => bytes_eqb b' b | _ => false end.

(** [Layer(b)] inside a method decorated with [dissect_failsafe] *)
Definition dissect (k : layer) (b : bytes) : out (bytes * layer) :=
  match codec k b with
  | COk b' s => Ok (b', s)
  | CStruct => NoneR
  | CExc e => Raise e
  end.

(** ** Layer queries ([X in packet], [raw(packet[X:])]) *)
Definition has_btle (p : packet) : bool := layer_eqb (p_top p) LBtle.
Definition has_data (p : packet) : bool :=
  layer_eqb (p_top p) LBtleData || (layer_eqb (p_top p) LBtle && layer_eqb (p_sub p) LBtleData).
Definition has_ctrl (p : packet) : bool := layer_eqb (p_top p) LBtleCtrl.
Definition has_adv (p : packet) : bool :=
  layer_eqb (p_top p) LBtleAdv || (layer_eqb (p_top p) LBtle && layer_eqb (p_sub p) LBtleAdv).

(** bytes of the link-layer PDU carried by a packet (without access address / CRC) *)
Definition inner (p : packet) : bytes :=
  if layer_eqb (p_top p) LBtle then butlastn 3 (skipn 4 (p_bytes p)) else p_bytes p.

(** the PDU extraction shared by SendBleRawPdu / SendBlePdu / BleRawPduReceived *)
Definition ble_extract (p : packet) : out bytes :=
  if has_data p then Ok (inner p)
  else if has_ctrl p then Ok (inner p)
  else if has_adv p then Ok (inner p)
  else NoneR.

(** [BTLE(raw(packet)).access_addr / .crc]: struct.error on fewer than 7 bytes *)
Definition btle_aa_crc (p : packet) : out (Z * Z) :=
  if (length (p_bytes p) <? 7)%nat then Raise StructError
  else Ok (un_le32z (p_bytes p), un_be24z (lastn 3 (p_bytes p))).

(** ** BLE messages *)
Record ble_send_raw := { bsr_direction : Z; bsr_conn : Z; bsr_aa : Z; bsr_pdu : bytes; bsr_crc : Z; bsr_encrypt : bool }.
Record ble_send := { bs_direction : Z; bs_conn : Z; bs_pdu : bytes; bs_encrypt : bool }.
Record ble_adv := { ba_type : Z; ba_rssi : Z; ba_addr : bytes; ba_data : bytes; ba_addr_type : Z }.
Record ble_pdu := { bp_direction : Z; bp_pdu : bytes; bp_conn : Z; bp_processed : bool; bp_decrypted : bool }.
Record ble_raw := {
  br_direction : Z; br_channel : Z; br_rssi : option Z; br_timestamp : option Z; br_rel_ts : option Z;
  br_valid : option bool; br_aa : Z; br_pdu : bytes; br_crc : Z; br_conn : Z; br_processed : bool;
  br_decrypted : bool }.

Definition md_ble_send (dir conn : Z) (enc raw : bool) : metadata :=
  {| md_cls := MdBle; md_raw := Some raw; md_decrypted := None; md_timestamp := None; md_channel := None;
     md_rssi := None; md_direction := Some dir; md_conn := Some conn; md_valid := None; md_rel_ts := None;
     md_encrypt := Some enc; md_processed := None; md_lqi := None; md_address := None; md_retr := None;
     md_frequency := None; md_endianness := None; md_deviation := None; md_datarate := None;
     md_modulation := None; md_syncword := None |}.

(** SendBleRawPdu.to_packet: BTLE(access_addr, crc)/pdu — the payload stays Raw *)
Definition ble_send_raw_to_body (m : ble_send_raw) : out packet :=
  Ok {| p_top := LBtle; p_sub := LRaw;
        p_bytes := le32z (bsr_aa m) ++ bsr_pdu m ++ be24z (bsr_crc m);
        p_md := Some (md_ble_send (bsr_direction m) (bsr_conn m) (bsr_encrypt m) true) |}.
Definition ble_send_raw_to (m : ble_send_raw) : out packet := failsafe_to (ble_send_raw_to_body m).

(** SendBleRawPdu.from_packet(packet, encrypt) *)
Definition ble_send_raw_from_body (encrypt : option bool) (p : packet) : out ble_send_raw :=
  do md <- get_md p;
  if negb (has_btle p) then NoneR else
  do pdu <- ble_extract p;
  do ac <- btle_aa_crc p;
  do d <- set_i32 (md_direction md);
  do c <- set_u32 (md_conn md);
  do aa <- set_u32 (Some (fst ac));
  do crc <- set_u32 (Some (snd ac));
  do e <- set_bool encrypt;
  Ok {| bsr_direction := d; bsr_conn := c; bsr_aa := aa; bsr_pdu := pdu; bsr_crc := crc; bsr_encrypt := e |}.
Definition ble_send_raw_from (encrypt : option bool) (p : packet) : out ble_send_raw := failsafe (ble_send_raw_from_body encrypt p).

(** SendBlePdu.to_packet: BTLE_DATA(pdu) *)
Definition ble_send_to_body (m : ble_send) : out packet :=
  do r <- dissect LBtleData (bs_pdu m);
  Ok {| p_top := LBtleData; p_sub := LRaw; p_bytes := fst r;
        p_md := Some (md_ble_send (bs_direction m) (bs_conn m) (bs_encrypt m) false) |}.
Definition ble_send_to (m : ble_send) : out packet := failsafe_to (ble_send_to_body m).

Definition ble_send_from_body (encrypt : option bool) (p : packet) : out ble_send :=
  do md <- get_md p;
  do pdu <- ble_extract p;
  do d <- set_i32 (md_direction md);
  do c <- set_u32 (md_conn md);
  do e <- set_bool encrypt;
  Ok {| bs_direction := d; bs_conn := c; bs_pdu := pdu; bs_encrypt := e |}.
Definition ble_send_from (encrypt : option bool) (p : packet) : out ble_send := failsafe (ble_send_from_body encrypt p).

(** BleDomain.convert_packet *)
Inductive ble_sendmsg := BSendRaw (m : ble_send_raw) | BSend (m : ble_send).
Definition truthy (b : option bool) : bool := match b with Some true => true | _ => false end.

(** [isinstance(getattr(packet, "metadata", None), XMetadata)]: no metadata -> not this domain *)
Definition md_or_none (p : packet) : out metadata := match p_md p with Some m => Ok m | None => NoneR end.

Definition ble_convert (p : packet) : out ble_sendmsg :=
  do md <- md_or_none p;
  if mdcls_eqb (md_cls md) MdBle then
    if truthy (md_raw md)
    then do m <- ble_send_raw_from (md_encrypt md) p; Ok (BSendRaw m)
    else do m <- ble_send_from (md_encrypt md) p; Ok (BSend m)
  else NoneR.

(** advertising PDU classes: AdvType value <-> scapy PDU_type / payload class *)
Definition adv_layer_of_type (t : Z) : option (layer * Z) :=   (* AdvType -> (class, PDU_type) *)
  if t =? 1 then Some (LAdvInd, 0) else if t =? 2 then Some (LAdvDirect, 1)
  else if t =? 3 then Some (LAdvNonconn, 2) else if t =? 4 then Some (LAdvScanInd, 6)
  else if t =? 5 then Some (LScanRsp, 4) else None.
Definition adv_of_pdu_type (t : Z) : option (layer * Z) :=     (* PDU_type -> (class, AdvType) *)
  if t =? 0 then Some (LAdvInd, 1) else if t =? 1 then Some (LAdvDirect, 2)
  else if t =? 2 then Some (LAdvNonconn, 3) else if t =? 6 then Some (LAdvScanInd, 4)
  else if t =? 4 then Some (LScanRsp, 5) else None.

Definition md_ble_adv (rssi : Z) : metadata :=
  {| md_cls := MdBle; md_raw := Some false; md_decrypted := None; md_timestamp := None; md_channel := None;
     md_rssi := Some rssi; md_direction := Some 0; md_conn := None; md_valid := None; md_rel_ts := None;
     md_encrypt := Some false; md_processed := None; md_lqi := None; md_address := None; md_retr := None;
     md_frequency := None; md_endianness := None; md_deviation := None; md_datarate := None;
     md_modulation := None; md_syncword := None |}.

(** BleAdvPduReceived.to_packet: BTLE_ADV()/CLASS(bd_address + adv_data), TxAdd from addr_type *)
Definition ble_adv_to_body (m : ble_adv) : out packet :=
  match adv_layer_of_type (ba_type m) with
  | None => NoneR
  | Some (cls, pt) =>
      if negb (length (ba_addr m) =? 6)%nat then NoneR else
      do r <- dissect cls (ba_addr m ++ ba_data m);
      let pay := fst r in
      let hdr0 := pt + (if ba_addr_type m =? 1 then 64 else 0) in
      Ok {| p_top := LBtleAdv; p_sub := LRaw;
            p_bytes := bz hdr0 :: bz (Z.of_nat (length pay)) :: pay;
            p_md := Some (md_ble_adv (ba_rssi m)) |}
  end.
Definition ble_adv_to (m : ble_adv) : out packet := failsafe_to (ble_adv_to_body m).

(** BleAdvPduReceived.from_packet *)
Definition ble_adv_from_body (p : packet) : out ble_adv :=
  if has_adv p then
    let b := inner p in
    match b with
    | h0 :: _ :: pay =>
        match adv_of_pdu_type (zb h0 mod 16) with
        | None => NoneR
        | Some (cls, at_) =>
            match codec cls pay with
            | COk _ _ =>      (* the payload dissects: the advertising layer exists *)
                do md <- get_md p;
                let data := if layer_eqb cls LAdvDirect then firstn 6 (skipn 6 pay) else skipn 6 pay in
                do r <- set_i32 (md_rssi md);
                Ok {| ba_type := at_; ba_rssi := r; ba_addr := firstn 6 pay; ba_data := data;
                      ba_addr_type := if (zb h0 / 64) mod 2 =? 1 then 1 else 0 |}
            | _ => NoneR      (* scapy keeps the payload as Raw: no class matches, the loop ends *)
            end
        end
    | _ => NoneR
    end
  else NoneR.
Definition ble_adv_from (p : packet) : out ble_adv := failsafe (ble_adv_from_body p).

Definition md_ble_pdu (dir conn : Z) (proc decr : bool) : metadata :=
  {| md_cls := MdBle; md_raw := Some false; md_decrypted := Some decr; md_timestamp := None; md_channel := None;
     md_rssi := None; md_direction := Some dir; md_conn := Some conn; md_valid := None; md_rel_ts := None;
     md_encrypt := Some false; md_processed := Some (Some proc); md_lqi := None; md_address := None;
     md_retr := None; md_frequency := None; md_endianness := None; md_deviation := None; md_datarate := None;
     md_modulation := None; md_syncword := None |}.

(** BlePduReceived.to_packet *)
Definition ble_pdu_to_body (m : ble_pdu) : out packet :=
  do r <- dissect LBtleData (bp_pdu m);
  Ok {| p_top := LBtleData; p_sub := LRaw; p_bytes := fst r;
        p_md := Some (md_ble_pdu (bp_direction m) (bp_conn m) (bp_processed m) (bp_decrypted m)) |}.
Definition ble_pdu_to (m : ble_pdu) : out packet := failsafe_to (ble_pdu_to_body m).

Definition get_processed (md : metadata) : out (option bool) :=
  match md_processed md with None => Raise AttributeError | Some v => Ok v end.

(** BlePduReceived.from_packet *)
Definition ble_pdu_from_body (p : packet) : out ble_pdu :=
  if negb (has_data p) then NoneR else
  do md <- get_md p;
  do pr <- get_processed md;
  do d <- set_i32 (md_direction md);
  do c <- set_u32 (md_conn md);
  do pr' <- set_bool pr;
  do de <- set_bool (md_decrypted md);
  Ok {| bp_direction := d; bp_pdu := inner p; bp_conn := c; bp_processed := pr'; bp_decrypted := de |}.
Definition ble_pdu_from (p : packet) : out ble_pdu := failsafe (ble_pdu_from_body p).

(** BleRawPduReceived.to_packet: BTLE(pack("I", aa) + pdu + pack(">I", crc)[1:]) *)
Definition ble_raw_to_body (m : ble_raw) : out packet :=
  if negb (in_u32 (br_aa m) && in_u32 (br_crc m)) then NoneR else
  do r <- dissect LBtle (le32z (br_aa m) ++ br_pdu m ++ be24z (br_crc m));
  Ok {| p_top := LBtle; p_sub := snd r; p_bytes := fst r;
        p_md := Some
          {| md_cls := MdBle; md_raw := Some true; md_decrypted := Some (br_decrypted m);
             md_timestamp := br_timestamp m; md_channel := Some (br_channel m); md_rssi := br_rssi m;
             md_direction := Some (br_direction m); md_conn := Some (br_conn m); md_valid := br_valid m;
             md_rel_ts := br_rel_ts m; md_encrypt := Some false; md_processed := Some (Some (br_processed m));
             md_lqi := None; md_address := None; md_retr := None; md_frequency := None; md_endianness := None;
             md_deviation := None; md_datarate := None; md_modulation := None; md_syncword := None |} |}.
Definition ble_raw_to (m : ble_raw) : out packet := failsafe_to (ble_raw_to_body m).

(** BleRawPduReceived.from_packet *)
Definition ble_raw_from_body (p : packet) : out ble_raw :=
  if has_btle p then
    do pdu <- ble_extract p;
    do ac <- btle_aa_crc p;
    do md <- get_md p;
    do pr <- get_processed md;
    do aa <- set_u32 (Some (fst ac));
    do crc <- set_u32 (Some (snd ac));
    do d <- set_i32 (md_direction md);
    do c <- set_u32 (md_conn md);
    do ch <- set_u32 (md_channel md);
    do de <- set_bool (md_decrypted md);
    do pr' <- set_bool pr;
    do rs <- opt_i32 (md_rssi md);
    do ts <- opt_u64 (md_timestamp md);
    do rt <- opt_u64 (md_rel_ts md);
    Ok {| br_direction := d; br_channel := ch; br_rssi := rs; br_timestamp := ts; br_rel_ts := rt;
          br_valid := md_valid md; br_aa := aa; br_pdu := pdu; br_crc := crc; br_conn := c;
          br_processed := pr'; br_decrypted := de |}
  else NoneR.
Definition ble_raw_from (p : packet) : out ble_raw := failsafe (ble_raw_from_body p).

(** ** 802.15.4 *)
Record d15_send := { ds_channel : Z; ds_pdu : bytes }.
Record d15_send_raw := { dsr_channel : Z; dsr_pdu : bytes; dsr_fcs : Z }.
Record d15_pdu := { dp_channel : Z; dp_pdu : bytes; dp_rssi : option Z; dp_timestamp : option Z;
                    dp_valid : option bool; dp_lqi : option Z }.
Record d15_raw := { dr_channel : Z; dr_pdu : bytes; dr_fcs : Z; dr_rssi : option Z; dr_timestamp : option Z;
                    dr_valid : option bool; dr_lqi : option Z }.

Definition md_d15 (raw decr : option bool) (ch : Z) (rssi ts : option Z) (valid : option bool) (lqi : option Z) : metadata :=
  {| md_cls := MdD15; md_raw := raw; md_decrypted := decr; md_timestamp := ts; md_channel := Some ch;
     md_rssi := rssi; md_direction := None; md_conn := None; md_valid := valid; md_rel_ts := None;
     md_encrypt := None; md_processed := None; md_lqi := lqi; md_address := None; md_retr := None;
     md_frequency := None; md_endianness := None; md_deviation := None; md_datarate := None;
     md_modulation := None; md_syncword := None |}.

(** [Dot15d4 in packet]: scapy's Dot15d4 has match_subclass = True, Dot15d4FCS matches too *)
Definition has_d15 (p : packet) : bool := layer_eqb (p_top p) LDot15d4 || layer_eqb (p_top p) LDot15d4FCS.

Definition d15_send_to_body (m : d15_send) : out packet :=
  do r <- dissect LDot15d4 (ds_pdu m);
  Ok {| p_top := LDot15d4; p_sub := LRaw; p_bytes := fst r;
        p_md := Some (md_d15 (Some false) None (ds_channel m) None None None None) |}.
Definition d15_send_to (m : d15_send) : out packet := failsafe_to (d15_send_to_body m).

Definition d15_send_from_body (channel : option Z) (p : packet) : out d15_send :=
  if has_d15 p || layer_eqb (p_top p) LDot15d4Raw then
    do ch <- set_u32 channel;
    Ok {| ds_channel := ch; ds_pdu := p_bytes p |}
  else NoneR.
Definition d15_send_from (channel : option Z) (p : packet) : out d15_send := failsafe (d15_send_from_body channel p).

Definition in_u16 (z : Z) : bool := (0 <=? z) && (z <? 65536).

Definition d15_send_raw_to_body (m : d15_send_raw) : out packet :=
  if negb (in_u16 (dsr_fcs m)) then NoneR else
  do r <- dissect LDot15d4FCS (dsr_pdu m ++ le16z (dsr_fcs m));
  Ok {| p_top := LDot15d4FCS; p_sub := LRaw; p_bytes := fst r;
        p_md := Some (md_d15 (Some true) None (dsr_channel m) None None None None) |}.
Definition d15_send_raw_to (m : d15_send_raw) : out packet := failsafe_to (d15_send_raw_to_body m).

(** pdu / fcs split of a frame: [frame[:-2]], [unpack("<H", frame[-2:])] *)
Definition split_fcs (frame : bytes) : bytes * Z := (butlastn 2 frame, un_le16z (lastn 2 frame)).

Definition d15_send_raw_from_body (channel : option Z) (p : packet) : out d15_send_raw :=
  if layer_eqb (p_top p) LDot15d4FCS then
    if (length (p_bytes p) <? 2)%nat then Raise StructError else
    let s := split_fcs (p_bytes p) in
    do ch <- set_u32 channel;
    Ok {| dsr_channel := ch; dsr_pdu := fst s; dsr_fcs := snd s |}
  else if layer_eqb (p_top p) LDot15d4 || layer_eqb (p_top p) LDot15d4Raw then
    let s := if (2 <? length (p_bytes p))%nat then split_fcs (p_bytes p) else (p_bytes p, 0) in
    do ch <- set_u32 channel;
    Ok {| dsr_channel := ch; dsr_pdu := fst s; dsr_fcs := snd s |}
  else NoneR.
Definition d15_send_raw_from (channel : option Z) (p : packet) : out d15_send_raw := failsafe (d15_send_raw_from_body channel p).

Inductive d15_sendmsg := DSendRaw (m : d15_send_raw) | DSend (m : d15_send).
Definition d15_convert (p : packet) : out d15_sendmsg :=
  do md <- md_or_none p;
  if mdcls_eqb (md_cls md) MdD15 then
    if truthy (md_raw md)
    then do m <- d15_send_raw_from (md_channel md) p; Ok (DSendRaw m)
    else do m <- d15_send_from (md_channel md) p; Ok (DSend m)
  else NoneR.

Definition d15_pdu_to_body (m : d15_pdu) : out packet :=
  do r <- dissect LDot15d4 (dp_pdu m);
  Ok {| p_top := LDot15d4; p_sub := LRaw; p_bytes := fst r;
        p_md := Some (md_d15 None (Some false) (dp_channel m) (dp_rssi m) (dp_timestamp m) (dp_valid m) (dp_lqi m)) |}.
Definition d15_pdu_to (m : d15_pdu) : out packet := failsafe_to (d15_pdu_to_body m).

Definition d15_pdu_from_body (p : packet) : out d15_pdu :=
  if negb (has_d15 p) then NoneR else
  do md <- get_md p;
  do ch <- set_u32 (md_channel md);
  do lq <- opt_u32 (md_lqi md);
  do rs <- opt_i32 (md_rssi md);
  do ts <- opt_u64 (md_timestamp md);
  Ok {| dp_channel := ch; dp_pdu := p_bytes p; dp_rssi := rs; dp_timestamp := ts; dp_valid := md_valid md; dp_lqi := lq |}.
Definition d15_pdu_from (p : packet) : out d15_pdu := failsafe (d15_pdu_from_body p).

(** RawPduReceived.to_packet: Dot15d4FCS(pdu + fcs), and Dot15d4Raw(...) when scapy raises struct.error *)
Definition d15_raw_to_body (m : d15_raw) : out packet :=
  if negb (in_u16 (dr_fcs m)) then NoneR else
  let frame := dr_pdu m ++ le16z (dr_fcs m) in
  let md := Some (md_d15 None (Some false) (dr_channel m) (dr_rssi m) (dr_timestamp m) (dr_valid m) (dr_lqi m)) in
  match codec LDot15d4FCS frame with
  | COk b _ => Ok {| p_top := LDot15d4FCS; p_sub := LRaw; p_bytes := b; p_md := md |}
  | CStruct => Ok {| p_top := LDot15d4Raw; p_sub := LRaw; p_bytes := frame; p_md := md |}
  | CExc e => Raise e
  end.
Definition d15_raw_to (m : d15_raw) : out packet := failsafe_to (d15_raw_to_body m).

Definition d15_raw_from_body (p : packet) : out d15_raw :=
  if layer_eqb (p_top p) LDot15d4FCS || layer_eqb (p_top p) LDot15d4Raw then
    if (length (p_bytes p) <? 2)%nat then NoneR else
    let s := split_fcs (p_bytes p) in
    do md <- get_md p;
    do ch <- set_u32 (md_channel md);
    do fc <- set_u32 (Some (snd s));
    do lq <- opt_u32 (md_lqi md);
    do rs <- opt_i32 (md_rssi md);
    do ts <- opt_u64 (md_timestamp md);
    Ok {| dr_channel := ch; dr_pdu := fst s; dr_fcs := fc; dr_rssi := rs; dr_timestamp := ts;
          dr_valid := md_valid md; dr_lqi := lq |}
  else NoneR.
Definition d15_raw_from (p : packet) : out d15_raw := failsafe (d15_raw_from_body p).

(** ** ESB and Logitech Unifying (same message shapes; [uni] selects the Unifying variants) *)
Record esb_tx := { et_channel : Z; et_pdu : bytes; et_retr : Z }.
Record esb_rx := { er_channel : Z; er_pdu : bytes; er_rssi : option Z; er_timestamp : option Z;
                   er_valid : option bool; er_address : option bytes }.

Definition esb_mdcls (uni : bool) : mdcls := if uni then MdUni else MdEsb.
Definition esb_hdr (uni : bool) : layer := if uni then LUniHdr else LEsbHdr.
Definition esb_payload (uni : bool) : layer := if uni then LUniPayload else LEsbPayload.

Definition md_esb (uni : bool) (raw decr : option bool) (ch : Z) (rssi ts : option Z) (valid : option bool)
           (addr : option bytes) (retr : option (option Z)) : metadata :=
  {| md_cls := esb_mdcls uni; md_raw := raw; md_decrypted := decr; md_timestamp := ts; md_channel := Some ch;
     md_rssi := rssi; md_direction := None; md_conn := None; md_valid := valid; md_rel_ts := None;
     md_encrypt := None; md_processed := None; md_lqi := None; md_address := addr; md_retr := retr;
     md_frequency := None; md_endianness := None; md_deviation := None; md_datarate := None;
     md_modulation := None; md_syncword := None |}.

(** [packet.preamble = 0xAA] followed by a rebuild *)
Definition force_preamble (b : bytes) : bytes := match b with [] => [] | _ :: t => 170%N :: t end.

(** SendPdu.to_packet *)
Definition esb_send_to_body (uni : bool) (m : esb_tx) : out packet :=
  do r <- dissect (esb_payload uni) (et_pdu m);
  Ok {| p_top := esb_payload uni; p_sub := LRaw; p_bytes := fst r;
        p_md := Some (md_esb uni (Some false) None (et_channel m) None None None None (Some (Some (et_retr m)))) |}.
Definition esb_send_to (uni : bool) (m : esb_tx) : out packet := failsafe_to (esb_send_to_body uni m).

(** SendRawPdu.to_packet (Unifying forces the preamble to 0xAA) *)
Definition esb_send_raw_to_body (uni : bool) (m : esb_tx) : out packet :=
  do r <- dissect (esb_hdr uni) (et_pdu m);
  Ok {| p_top := esb_hdr uni; p_sub := LRaw;
        p_bytes := if uni then force_preamble (fst r) else fst r;
        p_md := Some (md_esb uni (Some true) None (et_channel m) None None None None (Some (Some (et_retr m)))) |}.
Definition esb_send_raw_to (uni : bool) (m : esb_tx) : out packet := failsafe_to (esb_send_raw_to_body uni m).

(** SendPdu.from_packet / SendRawPdu.from_packet (packet, retr_count) *)
Definition esb_tx_from_body (retr : option Z) (p : packet) : out esb_tx :=
  do md <- get_md p;
  do ch <- set_u32 (md_channel md);
  do rc <- set_u32 retr;
  Ok {| et_channel := ch; et_pdu := p_bytes p; et_retr := rc |}.
Definition esb_tx_from (retr : option Z) (p : packet) : out esb_tx := failsafe (esb_tx_from_body retr p).

Inductive esb_sendmsg := ESendRaw (m : esb_tx) | ESend (m : esb_tx).
Definition esb_convert (uni : bool) (p : packet) : out esb_sendmsg :=
  do md <- md_or_none p;
  if mdcls_eqb (md_cls md) (esb_mdcls uni) then
    let retr := match md_retr md with Some (Some r) => Some r | _ => Some 1 end in
    if truthy (md_raw md)
    then do m <- esb_tx_from retr p; Ok (ESendRaw m)
    else do m <- esb_tx_from retr p; Ok (ESend m)
  else NoneR.

(** PduReceived.to_packet *)
Definition esb_pdu_to_body (uni : bool) (m : esb_rx) : out packet :=
  do r <- dissect (esb_payload uni) (er_pdu m);
  Ok {| p_top := esb_payload uni; p_sub := LRaw; p_bytes := fst r;
        p_md := Some (md_esb uni (if uni then Some false else None) (if uni then Some false else None)
                             (er_channel m) (er_rssi m) (er_timestamp m) (er_valid m) (er_address m) None) |}.
Definition esb_pdu_to (uni : bool) (m : esb_rx) : out packet := failsafe_to (esb_pdu_to_body uni m).

(** RawPduReceived.to_packet *)
Definition esb_raw_to_body (uni : bool) (m : esb_rx) : out packet :=
  do r <- dissect (esb_hdr uni) (er_pdu m);
  Ok {| p_top := esb_hdr uni; p_sub := LRaw; p_bytes := fst r;
        p_md := Some (md_esb uni (Some true) (Some false) (er_channel m) (er_rssi m) (er_timestamp m)
                             (er_valid m) (er_address m) None) |}.
Definition esb_raw_to (uni : bool) (m : esb_rx) : out packet := failsafe_to (esb_raw_to_body uni m).

(** PduReceived.from_packet / RawPduReceived.from_packet; [force] = Unifying RawPduReceived, which
    sets [packet.preamble = 0xAA] before taking the bytes *)
Definition esb_rx_from_body (force : bool) (p : packet) : out esb_rx :=
  let is_hdr := layer_eqb (p_top p) LUniHdr || layer_eqb (p_top p) LEsbHdr in
  let b := if force && is_hdr then force_preamble (p_bytes p) else p_bytes p in
  do md <- get_md p;
  do ch <- set_u32 (md_channel md);
  do rs <- opt_i32 (md_rssi md);
  do ts <- opt_u64 (md_timestamp md);
  Ok {| er_channel := ch; er_pdu := b; er_rssi := rs; er_timestamp := ts; er_valid := md_valid md;
        er_address := md_address md |}.
Definition esb_rx_from (force : bool) (p : packet) : out esb_rx := failsafe (esb_rx_from_body force p).

(** ** PHY *)
Record phy_send := { ps_packet : bytes }.
Record phy_send_raw := { psr_iq : list Z }.
Record phy_rx := { pr_frequency : Z; pr_packet : bytes; pr_rssi : option Z; pr_timestamp : option Z;
                   pr_iq : list Z; pr_deviation : Z; pr_datarate : Z; pr_endian : Z; pr_modulation : Z;
                   pr_syncword : bytes }.

Definition phy_send_to_body (m : phy_send) : out packet :=
  Ok {| p_top := LPhy; p_sub := LRaw; p_bytes := ps_packet m; p_md := None |}.
Definition phy_send_to (m : phy_send) : out packet := failsafe_to (phy_send_to_body m).
Definition phy_send_from (p : packet) : out phy_send := failsafe (Ok {| ps_packet := p_bytes p |}).
(** SendRawPacket.to_packet reads [self.packet], which does not exist *)
Definition phy_send_raw_to (m : phy_send_raw) : out packet := failsafe_to (Raise AttributeError).
Definition phy_send_raw_from (p : packet) : out phy_send_raw := failsafe (Ok {| psr_iq := [] |}).

Inductive phy_sendmsg := PSendRaw (m : phy_send_raw) | PSend (m : phy_send).
Definition phy_convert (p : packet) : out phy_sendmsg :=
  do md <- md_or_none p;
  if mdcls_eqb (md_cls md) MdPhy then
    if truthy (md_raw md)
    then do m <- phy_send_raw_from p; Ok (PSendRaw m)
    else do m <- phy_send_from p; Ok (PSend m)
  else NoneR.

Definition md_phy (raw : bool) (freq : Z) (rssi ts : option Z) (en de da mo : option Z) (sw : option bytes) : metadata :=
  {| md_cls := MdPhy; md_raw := Some raw; md_decrypted := None; md_timestamp := ts; md_channel := None;
     md_rssi := rssi; md_direction := None; md_conn := None; md_valid := None; md_rel_ts := None;
     md_encrypt := None; md_processed := None; md_lqi := None; md_address := None; md_retr := None;
     md_frequency := Some freq; md_endianness := en; md_deviation := de; md_datarate := da;
     md_modulation := mo; md_syncword := sw |}.

(** PacketReceived / RawPacketReceived (version 1): the modulation fields are not translated *)
Definition phy_rx1_to_body (raw : bool) (m : phy_rx) : out packet :=
  Ok {| p_top := LPhy; p_sub := LRaw; p_bytes := pr_packet m;
        p_md := Some (md_phy raw (pr_frequency m) (pr_rssi m) (pr_timestamp m) None None None None None) |}.
Definition phy_rx1_to (raw : bool) (m : phy_rx) : out packet := failsafe_to (phy_rx1_to_body raw m).

Definition phy_rx1_from_body (p : packet) : out phy_rx :=
  do md <- get_md p;
  do f <- set_u32 (md_frequency md);
  do rs <- opt_i32 (md_rssi md);
  do ts <- opt_u64 (md_timestamp md);
  Ok {| pr_frequency := f; pr_packet := p_bytes p; pr_rssi := rs; pr_timestamp := ts; pr_iq := [];
        pr_deviation := 0; pr_datarate := 0; pr_endian := 0; pr_modulation := 0; pr_syncword := [] |}.
Definition phy_rx1_from (p : packet) : out phy_rx := failsafe (phy_rx1_from_body p).

(** Extended (version 2): Endianness(x) / Modulation(x) raise ValueError outside the enum *)
Definition phy_rx2_to_body (raw : bool) (m : phy_rx) : out packet :=
  if negb ((0 <=? pr_endian m) && (pr_endian m <=? 1)) then Raise ValueError else
  if negb ((0 <=? pr_modulation m) && (pr_modulation m <=? 7)) then Raise ValueError else
  Ok {| p_top := LPhy; p_sub := LRaw; p_bytes := pr_packet m;
        p_md := Some (md_phy raw (pr_frequency m) (pr_rssi m) (pr_timestamp m) (Some (pr_endian m))
                             (Some (pr_deviation m)) (Some (pr_datarate m)) (Some (pr_modulation m))
                             (Some (pr_syncword m))) |}.
Definition phy_rx2_to (raw : bool) (m : phy_rx) : out packet := failsafe_to (phy_rx2_to_body raw m).

Definition dflt (v : option Z) : Z := match v with Some z => z | None => 0 end.

Definition phy_rx2_from_body (p : packet) : out phy_rx :=
  do md <- get_md p;
  do f <- set_u32 (md_frequency md);
  do rs <- opt_i32 (md_rssi md);
  do ts <- opt_u64 (md_timestamp md);
  do en <- opt_i32 (md_endianness md);
  do da <- opt_u32 (md_datarate md);
  do de <- opt_u32 (md_deviation md);
  do mo <- opt_i32 (md_modulation md);
  Ok {| pr_frequency := f; pr_packet := p_bytes p; pr_rssi := rs; pr_timestamp := ts; pr_iq := [];
        pr_deviation := dflt de; pr_datarate := dflt da; pr_endian := dflt en; pr_modulation := dflt mo;
        pr_syncword := match md_syncword md with Some s => s | None => [] end |}.
Definition phy_rx2_from (p : packet) : out phy_rx := failsafe (phy_rx2_from_body p).

(** ** ProtocolHub.convert_packet: dispatch on the metadata class *)
Inductive sendmsg := SBle (m : ble_sendmsg) | SD15 (m : d15_sendmsg) | SEsb (m : esb_sendmsg)
                   | SUni (m : esb_sendmsg) | SPhy (m : phy_sendmsg).

Definition hub_convert (p : packet) : out sendmsg :=
  do md <- md_or_none p;
  match md_cls md with
  | MdBle => do m <- ble_convert p; Ok (SBle m)
  | MdD15 => do m <- d15_convert p; Ok (SD15 m)
  | MdEsb => do m <- esb_convert false p; Ok (SEsb m)
  | MdPhy => do m <- phy_convert p; Ok (SPhy m)
  | MdUni => do m <- esb_convert true p; Ok (SUni m)
  | MdOther => NoneR
  end.

Definition send_to_packet (m : sendmsg) : out packet :=
  match m with
  | SBle (BSendRaw x) => ble_send_raw_to x
  | SBle (BSend x) => ble_send_to x
  | SD15 (DSendRaw x) => d15_send_raw_to x
  | SD15 (DSend x) => d15_send_to x
  | SEsb (ESendRaw x) => esb_send_raw_to false x
  | SEsb (ESend x) => esb_send_to false x
  | SUni (ESendRaw x) => esb_send_raw_to true x
  | SUni (ESend x) => esb_send_to true x
  | SPhy (PSendRaw x) => phy_send_raw_to x
  | SPhy (PSend x) => phy_send_to x
  end.

End Codec.

(** ** Generic entry points: one class tag per wrapper class *)
Inductive cls :=
  | CBleSendRaw | CBleSend | CBleAdv | CBlePdu | CBleRaw
  | CD15Send | CD15SendRaw | CD15Pdu | CD15Raw
  | CEsbSend | CEsbSendRaw | CEsbPdu | CEsbRaw
  | CUniSend | CUniSendRaw | CUniPdu | CUniRaw
  | CPhySend | CPhySendRaw | CPhyPkt1 | CPhyPkt2 | CPhyRaw1 | CPhyRaw2.

Inductive body :=
  | BBleSendRaw (m : ble_send_raw) | BBleSend (m : ble_send) | BBleAdv (m : ble_adv) | BBlePdu (m : ble_pdu)
  | BBleRaw (m : ble_raw)
  | BD15Send (m : d15_send) | BD15SendRaw (m : d15_send_raw) | BD15Pdu (m : d15_pdu) | BD15Raw (m : d15_raw)
  | BEsbTx (m : esb_tx) | BEsbRx (m : esb_rx)
  | BPhySend (m : phy_send) | BPhySendRaw (m : phy_send_raw) | BPhyRx (m : phy_rx).

(** extra arguments of the static [from_packet] methods *)
Record kwargs := { kw_encrypt : option bool; kw_channel : option Z; kw_retr : option Z }.
Definition kw_default : kwargs := {| kw_encrypt := Some false; kw_channel := Some 11; kw_retr := Some 1 |}.

Definition omap {A B} (f : A -> B) (x : out A) : out B :=
  match x with Ok a => Ok (f a) | NoneR => NoneR | Raise e => Raise e end.

Definition to_packet_any (codec : layer -> bytes -> cres) (c : cls) (b : body) : out packet :=
  match c, b with
  | CBleSendRaw, BBleSendRaw m => ble_send_raw_to m
  | CBleSend, BBleSend m => ble_send_to codec m
  | CBleAdv, BBleAdv m => ble_adv_to codec m
  | CBlePdu, BBlePdu m => ble_pdu_to codec m
  | CBleRaw, BBleRaw m => ble_raw_to codec m
  | CD15Send, BD15Send m => d15_send_to codec m
  | CD15SendRaw, BD15SendRaw m => d15_send_raw_to codec m
  | CD15Pdu, BD15Pdu m => d15_pdu_to codec m
  | CD15Raw, BD15Raw m => d15_raw_to codec m
  | CEsbSend, BEsbTx m => esb_send_to codec false m
  | CEsbSendRaw, BEsbTx m => esb_send_raw_to codec false m
  | CEsbPdu, BEsbRx m => esb_pdu_to codec false m
  | CEsbRaw, BEsbRx m => esb_raw_to codec false m
  | CUniSend, BEsbTx m => esb_send_to codec true m
  | CUniSendRaw, BEsbTx m => esb_send_raw_to codec true m
  | CUniPdu, BEsbRx m => esb_pdu_to codec true m
  | CUniRaw, BEsbRx m => esb_raw_to codec true m
  | CPhySend, BPhySend m => phy_send_to m
  | CPhySendRaw, BPhySendRaw m => phy_send_raw_to m
  | CPhyPkt1, BPhyRx m => phy_rx1_to false m
  | CPhyPkt2, BPhyRx m => phy_rx2_to false m
  | CPhyRaw1, BPhyRx m => phy_rx1_to true m
  | CPhyRaw2, BPhyRx m => phy_rx2_to true m
  | _, _ => Raise CodecMissing
  end.

Definition from_packet_any (codec : layer -> bytes -> cres) (c : cls) (kw : kwargs) (p : packet) : out body :=
  match c with
  | CBleSendRaw => omap BBleSendRaw (ble_send_raw_from (kw_encrypt kw) p)
  | CBleSend => omap BBleSend (ble_send_from (kw_encrypt kw) p)
  | CBleAdv => omap BBleAdv (ble_adv_from codec p)
  | CBlePdu => omap BBlePdu (ble_pdu_from p)
  | CBleRaw => omap BBleRaw (ble_raw_from p)
  | CD15Send => omap BD15Send (d15_send_from (kw_channel kw) p)
  | CD15SendRaw => omap BD15SendRaw (d15_send_raw_from (kw_channel kw) p)
  | CD15Pdu => omap BD15Pdu (d15_pdu_from p)
  | CD15Raw => omap BD15Raw (d15_raw_from p)
  | CEsbSend | CEsbSendRaw | CUniSend | CUniSendRaw => omap BEsbTx (esb_tx_from (kw_retr kw) p)
  | CEsbPdu | CEsbRaw | CUniPdu => omap BEsbRx (esb_rx_from false p)
  | CUniRaw => omap BEsbRx (esb_rx_from true p)
  | CPhySend => omap BPhySend (phy_send_from p)
  | CPhySendRaw => omap BPhySendRaw (phy_send_raw_from p)
  | CPhyPkt1 | CPhyRaw1 => omap BPhyRx (phy_rx1_from p)
  | CPhyPkt2 | CPhyRaw2 => omap BPhyRx (phy_rx2_from p)
  end.

(** the (class, message) a send message of [hub_convert] is; [v2] = protocol version 2 (same send classes) *)
Definition tag_send (m : sendmsg) : cls * body :=
  match m with
  | SBle (BSendRaw x) => (CBleSendRaw, BBleSendRaw x)
  | SBle (BSend x) => (CBleSend, BBleSend x)
  | SD15 (DSendRaw x) => (CD15SendRaw, BD15SendRaw x)
  | SD15 (DSend x) => (CD15Send, BD15Send x)
  | SEsb (ESendRaw x) => (CEsbSendRaw, BEsbTx x)
  | SEsb (ESend x) => (CEsbSend, BEsbTx x)
  | SUni (ESendRaw x) => (CUniSendRaw, BEsbTx x)
  | SUni (ESend x) => (CUniSend, BEsbTx x)
  | SPhy (PSendRaw x) => (CPhySendRaw, BPhySendRaw x)
  | SPhy (PSend x) => (CPhySend, BPhySend x)
  end.

(** ** Boolean equalities (used by the correspondence checks only) *)
Definition exn_eqb (a b : exn) : bool :=
  match a, b with
  | TypeError, TypeError | AttributeError, AttributeError | ValueError, ValueError | StructError, StructError
  | IndexError, IndexError | NameError, NameError | OtherError, OtherError => true
  | _, _ => false
  end.
Definition cls_eqb (a b : cls) : bool :=
  match a, b with
  | CBleSendRaw, CBleSendRaw | CBleSend, CBleSend | CBleAdv, CBleAdv | CBlePdu, CBlePdu | CBleRaw, CBleRaw
  | CD15Send, CD15Send | CD15SendRaw, CD15SendRaw | CD15Pdu, CD15Pdu | CD15Raw, CD15Raw
  | CEsbSend, CEsbSend | CEsbSendRaw, CEsbSendRaw | CEsbPdu, CEsbPdu | CEsbRaw, CEsbRaw
  | CUniSend, CUniSend | CUniSendRaw, CUniSendRaw | CUniPdu, CUniPdu | CUniRaw, CUniRaw
  | CPhySend, CPhySend | CPhySendRaw, CPhySendRaw | CPhyPkt1, CPhyPkt1 | CPhyPkt2, CPhyPkt2
  | CPhyRaw1, CPhyRaw1 | CPhyRaw2, CPhyRaw2 => true
  | _, _ => false
  end.
Definition opt_eqb {A} (eqb : A -> A -> bool) (a b : option A) : bool :=
  match a, b with Some x, Some y => eqb x y | None, None => true | _, _ => false end.
Definition oz_eqb := opt_eqb Z.eqb.
Definition ob_eqb := opt_eqb Bool.eqb.
Definition oby_eqb := opt_eqb bytes_eqb.
Fixpoint zl_eqb (a b : list Z) : bool :=
  match a, b with [] , [] => true | x :: a', y :: b' => Z.eqb x y && zl_eqb a' b' | _, _ => false end.

Definition md_eqb (a b : metadata) : bool :=
  mdcls_eqb (md_cls a) (md_cls b) && ob_eqb (md_raw a) (md_raw b) && ob_eqb (md_decrypted a) (md_decrypted b)
  && oz_eqb (md_timestamp a) (md_timestamp b) && oz_eqb (md_channel a) (md_channel b)
  && oz_eqb (md_rssi a) (md_rssi b) && oz_eqb (md_direction a) (md_direction b) && oz_eqb (md_conn a) (md_conn b)
  && ob_eqb (md_valid a) (md_valid b) && oz_eqb (md_rel_ts a) (md_rel_ts b) && ob_eqb (md_encrypt a) (md_encrypt b)
  && opt_eqb ob_eqb (md_processed a) (md_processed b) && oz_eqb (md_lqi a) (md_lqi b)
  && oby_eqb (md_address a) (md_address b) && opt_eqb oz_eqb (md_retr a) (md_retr b)
  && oz_eqb (md_frequency a) (md_frequency b) && oz_eqb (md_endianness a) (md_endianness b)
  && oz_eqb (md_deviation a) (md_deviation b) && oz_eqb (md_datarate a) (md_datarate b)
  && oz_eqb (md_modulation a) (md_modulation b) && oby_eqb (md_syncword a) (md_syncword b).

Definition packet_eqb (a b : packet) : bool :=
  layer_eqb (p_top a) (p_top b) && layer_eqb (p_sub a) (p_sub b) && bytes_eqb (p_bytes a) (p_bytes b)
  && opt_eqb md_eqb (p_md a) (p_md b).

Definition body_eqb (a b : body) : bool :=
  match a, b with
  | BBleSendRaw x, BBleSendRaw y =>
      Z.eqb (bsr_direction x) (bsr_direction y) && Z.eqb (bsr_conn x) (bsr_conn y) && Z.eqb (bsr_aa x) (bsr_aa y)
      && bytes_eqb (bsr_pdu x) (bsr_pdu y) && Z.eqb (bsr_crc x) (bsr_crc y) && Bool.eqb (bsr_encrypt x) (bsr_encrypt y)
  | BBleSend x, BBleSend y =>
      Z.eqb (bs_direction x) (bs_direction y) && Z.eqb (bs_conn x) (bs_conn y) && bytes_eqb (bs_pdu x) (bs_pdu y)
      && Bool.eqb (bs_encrypt x) (bs_encrypt y)
  | BBleAdv x, BBleAdv y =>
      Z.eqb (ba_type x) (ba_type y) && Z.eqb (ba_rssi x) (ba_rssi y) && bytes_eqb (ba_addr x) (ba_addr y)
      && bytes_eqb (ba_data x) (ba_data y) && Z.eqb (ba_addr_type x) (ba_addr_type y)
  | BBlePdu x, BBlePdu y =>
      Z.eqb (bp_direction x) (bp_direction y) && bytes_eqb (bp_pdu x) (bp_pdu y) && Z.eqb (bp_conn x) (bp_conn y)
      && Bool.eqb (bp_processed x) (bp_processed y) && Bool.eqb (bp_decrypted x) (bp_decrypted y)
  | BBleRaw x, BBleRaw y =>
      Z.eqb (br_direction x) (br_direction y) && Z.eqb (br_channel x) (br_channel y) && oz_eqb (br_rssi x) (br_rssi y)
      && oz_eqb (br_timestamp x) (br_timestamp y) && oz_eqb (br_rel_ts x) (br_rel_ts y)
      && ob_eqb (br_valid x) (br_valid y) && Z.eqb (br_aa x) (br_aa y) && bytes_eqb (br_pdu x) (br_pdu y)
      && Z.eqb (br_crc x) (br_crc y) && Z.eqb (br_conn x) (br_conn y) && Bool.eqb (br_processed x) (br_processed y)
      && Bool.eqb (br_decrypted x) (br_decrypted y)
  | BD15Send x, BD15Send y => Z.eqb (ds_channel x) (ds_channel y) && bytes_eqb (ds_pdu x) (ds_pdu y)
  | BD15SendRaw x, BD15SendRaw y =>
      Z.eqb (dsr_channel x) (dsr_channel y) && bytes_eqb (dsr_pdu x) (dsr_pdu y) && Z.eqb (dsr_fcs x) (dsr_fcs y)
  | BD15Pdu x, BD15Pdu y =>
      Z.eqb (dp_channel x) (dp_channel y) && bytes_eqb (dp_pdu x) (dp_pdu y) && oz_eqb (dp_rssi x) (dp_rssi y)
      && oz_eqb (dp_timestamp x) (dp_timestamp y) && ob_eqb (dp_valid x) (dp_valid y) && oz_eqb (dp_lqi x) (dp_lqi y)
  | BD15Raw x, BD15Raw y =>
      Z.eqb (dr_channel x) (dr_channel y) && bytes_eqb (dr_pdu x) (dr_pdu y) && Z.eqb (dr_fcs x) (dr_fcs y)
      && oz_eqb (dr_rssi x) (dr_rssi y) && oz_eqb (dr_timestamp x) (dr_timestamp y) && ob_eqb (dr_valid x) (dr_valid y)
      && oz_eqb (dr_lqi x) (dr_lqi y)
  | BEsbTx x, BEsbTx y =>
      Z.eqb (et_channel x) (et_channel y) && bytes_eqb (et_pdu x) (et_pdu y) && Z.eqb (et_retr x) (et_retr y)
  | BEsbRx x, BEsbRx y =>
      Z.eqb (er_channel x) (er_channel y) && bytes_eqb (er_pdu x) (er_pdu y) && oz_eqb (er_rssi x) (er_rssi y)
      && oz_eqb (er_timestamp x) (er_timestamp y) && ob_eqb (er_valid x) (er_valid y)
      && oby_eqb (er_address x) (er_address y)
  | BPhySend x, BPhySend y => bytes_eqb (ps_packet x) (ps_packet y)
  | BPhySendRaw x, BPhySendRaw y => zl_eqb (psr_iq x) (psr_iq y)
  | BPhyRx x, BPhyRx y =>
      Z.eqb (pr_frequency x) (pr_frequency y) && bytes_eqb (pr_packet x) (pr_packet y) && oz_eqb (pr_rssi x) (pr_rssi y)
      && oz_eqb (pr_timestamp x) (pr_timestamp y) && zl_eqb (pr_iq x) (pr_iq y)
      && Z.eqb (pr_deviation x) (pr_deviation y) && Z.eqb (pr_datarate x) (pr_datarate y)
      && Z.eqb (pr_endian x) (pr_endian y) && Z.eqb (pr_modulation x) (pr_modulation y)
      && bytes_eqb (pr_syncword x) (pr_syncword y)
  | _, _ => false
  end.

Definition tagged_eqb (a b : cls * body) : bool := cls_eqb (fst a) (fst b) && body_eqb (snd a) (snd b).

(** ** Correspondence: the codec is the table of (layer, input) -> result pairs observed on scapy *)
Definition ctab := list (layer * bytes * cres).
Fixpoint codec_of (t : ctab) (k : layer) (b : bytes) : cres :=
  match t with
  | [] => CExc CodecMissing   (* a query the harness did not record: never equal to an observed outcome *)
  | (k', b', r) :: t' => if layer_eqb k k' && bytes_eqb b b' then r else codec_of t' k b
  end.

(** what the implementation did at one stage *)
Inductive obs (A : Type) := OOk (a : A) | ONone | OExc (e : exn) | OSkip.
Arguments OOk {A} a. Arguments ONone {A}. Arguments OExc {A} e. Arguments OSkip {A}.

Definition out_matches {A} (eqb : A -> A -> bool) (m : out A) (o : obs A) : bool :=
  match m, o with
  | Ok a, OOk b => eqb a b
  | NoneR, ONone => true
  | Raise e, OExc e' => exn_eqb e e'
  | _, _ => false
  end.
Definition is_skip {A} (o : obs A) : bool := match o with OSkip => true | _ => false end.

(** message -> packet -> message: (codec table, class, message, observed packet, observed message;
    the class of the message that came back is compared too) *)
Definition check_m2p2m (c : ctab * cls * body * obs packet * obs (cls * body)) : bool :=
  let '(t, k, m, op, om) := c in
  let p := to_packet_any (codec_of t) k m in
  out_matches packet_eqb p op &&
  match p with
  | Ok pk => out_matches tagged_eqb (omap (fun b => (k, b)) (from_packet_any (codec_of t) k kw_default pk)) om
  | _ => is_skip om
  end.

(** packet -> message -> packet *)
Definition check_p2m2p (c : ctab * cls * kwargs * packet * obs (cls * body) * obs packet) : bool :=
  let '(t, k, kw, p0, om, op) := c in
  let m := from_packet_any (codec_of t) k kw p0 in
  out_matches tagged_eqb (omap (fun b => (k, b)) m) om &&
  match m with
  | Ok b => out_matches packet_eqb (to_packet_any (codec_of t) k b) op
  | _ => is_skip op
  end.

(** hub.convert_packet(packet).to_packet() *)
Definition check_convert (c : ctab * packet * obs (cls * body) * obs packet) : bool :=
  let '(t, p0, om, op) := c in
  let m := hub_convert p0 in
  out_matches tagged_eqb (omap tag_send m) om &&
  match m with
  | Ok s => out_matches packet_eqb (send_to_packet (codec_of t) s) op
  | _ => is_skip op
  end.

(** ** Sequences of conversions: each result is kept and re-read after the whole sequence.  In the
    model a conversion is a function of its own input only ([seq_to] / [seq_from] are [map]); the
    implementation's re-read results are compared with it element by element. *)
Definition seq_to (codec : layer -> bytes -> cres) (k : cls) (ms : list body) : list (out packet) :=
  map (to_packet_any codec k) ms.
Definition seq_from (codec : layer -> bytes -> cres) (k : cls) (kw : kwargs) (ps : list packet) : list (out body) :=
  map (from_packet_any codec k kw) ps.
Definition seq_convert (ps : list packet) : list (out sendmsg) := map hub_convert ps.

Fixpoint all2 {A B} (f : A -> B -> bool) (a : list A) (b : list B) : bool :=
  match a, b with
  | [], [] => true
  | x :: a', y :: b' => f x y && all2 f a' b'
  | _, _ => false
  end.

Definition check_seq_to (c : ctab * cls * list (body * obs packet)) : bool :=
  let '(t, k, l) := c in
  all2 (out_matches packet_eqb) (seq_to (codec_of t) k (map fst l)) (map snd l).
Definition check_seq_from (c : ctab * cls * list (packet * obs (cls * body))) : bool :=
  let '(t, k, l) := c in
  all2 (out_matches tagged_eqb) (map (omap (fun b => (k, b))) (seq_from (codec_of t) k kw_default (map fst l))) (map snd l).
Definition check_seq_convert (c : list (packet * obs (cls * body))) : bool :=
  all2 (out_matches tagged_eqb) (map (omap tag_send) (seq_convert (map fst c))) (map snd c).

(** ** Well-formedness (the premises of the round-trip theorems), all boolean *)
Definition is_none {A} (o : option A) : bool := match o with None => true | Some _ => false end.
Definition is_some {A} (o : option A) : bool := negb (is_none o).
Definition ro_i32 (v : option Z) : bool := match v with None => true | Some z => in_i32 z end.
Definition ro_u32 (v : option Z) : bool := match v with None => true | Some z => in_u32 z end.
Definition ro_u64 (v : option Z) : bool := match v with None => true | Some z => in_u64 z end.
Definition so_i32 (v : option Z) : bool := match v with None => false | Some z => in_i32 z end.
Definition so_u32 (v : option Z) : bool := match v with None => false | Some z => in_u32 z end.
Definition in_u24 (z : Z) : bool := (0 <=? z) && (z <? 16777216).
Definition ob_is (v : option bool) (b : bool) : bool := match v with Some x => Bool.eqb x b | None => false end.

(** metadata items no message kind of the domain transports must be absent *)
Definition md_no_ble (m : metadata) : bool :=
  is_none (md_direction m) && is_none (md_conn m) && is_none (md_rel_ts m) && is_none (md_encrypt m) && is_none (md_processed m).
Definition md_no_d15 (m : metadata) : bool := is_none (md_lqi m).
Definition md_no_esb (m : metadata) : bool := is_none (md_address m) && is_none (md_retr m).
Definition md_no_phy (m : metadata) : bool :=
  is_none (md_frequency m) && is_none (md_endianness m) && is_none (md_deviation m) && is_none (md_datarate m)
  && is_none (md_modulation m) && is_none (md_syncword m).

Section WF.
Variable codec : layer -> bytes -> cres.

Definition canon (k : layer) (b : bytes) : bool := wf_pdu codec k b.

(** BLE *)
Definition btle_frame (aa : Z) (pdu : bytes) (crc : Z) : bytes := le32z aa ++ pdu ++ be24z crc.
Definition canon_btle (frame : bytes) : bool :=
  match codec LBtle frame with
  | COk b s => bytes_eqb b frame && (layer_eqb s LBtleData || layer_eqb s LBtleAdv)
  | _ => false
  end.

Definition wf_ble_raw (m : ble_raw) : bool :=
  in_i32 (br_direction m) && in_u32 (br_channel m) && ro_i32 (br_rssi m) && ro_u64 (br_timestamp m)
  && ro_u64 (br_rel_ts m) && in_u32 (br_aa m) && in_u24 (br_crc m) && in_u32 (br_conn m)
  && canon_btle (btle_frame (br_aa m) (br_pdu m) (br_crc m)).

Definition wf_ble_pdu (m : ble_pdu) : bool :=
  in_i32 (bp_direction m) && in_u32 (bp_conn m) && canon LBtleData (bp_pdu m).

(** advertising payload: AdvA (6 bytes) then the data (for ADV_DIRECT_IND exactly the 6 bytes of InitA) *)
Definition wf_ble_adv (m : ble_adv) : bool :=
  in_i32 (ba_rssi m) && (length (ba_addr m) =? 6)%nat && (length (ba_addr m ++ ba_data m) <? 256)%nat
  && ((ba_addr_type m =? 0) || (ba_addr_type m =? 1))
  && match adv_layer_of_type (ba_type m) with
     | Some (cls, _) => canon cls (ba_addr m ++ ba_data m)
                        && (if layer_eqb cls LAdvDirect then (length (ba_data m) =? 6)%nat else true)
     | None => false
     end.

(** an advertising packet the message can carry: PDU type with a payload class, only TxAdd set
    besides the type, Length byte = payload length, payload = AdvA + data (InitA for direct) *)
Definition wfp_ble_adv (p : packet) : bool :=
  layer_eqb (p_top p) LBtleAdv && layer_eqb (p_sub p) LRaw
  && match p_bytes p with
     | h0 :: l :: pay =>
         match adv_of_pdu_type (zb h0 mod 16) with
         | Some (cls, _) =>
             ((zb h0 =? zb h0 mod 16) || (zb h0 =? zb h0 mod 16 + 64))
             && (zb l =? Z.of_nat (length pay)) && (length pay <? 256)%nat && (6 <=? length pay)%nat
             && canon cls pay && (if layer_eqb cls LAdvDirect then (length pay =? 12)%nat else true)
             && wf_bytes [h0; l]
         | None => false
         end
     | _ => false
     end
  && match p_md p with
     | Some m =>
         mdcls_eqb (md_cls m) MdBle && ob_is (md_raw m) false && is_none (md_decrypted m) && is_none (md_timestamp m)
         && is_none (md_channel m) && so_i32 (md_rssi m)
         && match md_direction m with Some d => d =? 0 | None => false end
         && is_none (md_conn m) && is_none (md_valid m) && is_none (md_rel_ts m) && ob_is (md_encrypt m) false
         && is_none (md_processed m) && md_no_d15 m && md_no_esb m && md_no_phy m
     | None => false
     end.

Definition wfp_ble_raw (p : packet) : bool :=
  layer_eqb (p_top p) LBtle && (layer_eqb (p_sub p) LBtleData || layer_eqb (p_sub p) LBtleAdv)
  && wf_bytes (p_bytes p) && (7 <=? length (p_bytes p))%nat
  && match codec LBtle (p_bytes p) with COk b s => bytes_eqb b (p_bytes p) && layer_eqb s (p_sub p) | _ => false end
  && match p_md p with
     | Some m =>
         mdcls_eqb (md_cls m) MdBle && ob_is (md_raw m) true && is_some (md_decrypted m) && ro_u64 (md_timestamp m)
         && so_u32 (md_channel m) && ro_i32 (md_rssi m) && so_i32 (md_direction m) && so_u32 (md_conn m)
         && ro_u64 (md_rel_ts m) && ob_is (md_encrypt m) false
         && match md_processed m with Some (Some _) => true | _ => false end
         && md_no_d15 m && md_no_esb m && md_no_phy m
     | None => false
     end.

Definition wfp_ble_pdu (p : packet) : bool :=
  layer_eqb (p_top p) LBtleData && layer_eqb (p_sub p) LRaw && canon LBtleData (p_bytes p)
  && match p_md p with
     | Some m =>
         mdcls_eqb (md_cls m) MdBle && ob_is (md_raw m) false && is_some (md_decrypted m) && is_none (md_timestamp m)
         && is_none (md_channel m) && is_none (md_rssi m) && so_i32 (md_direction m) && so_u32 (md_conn m)
         && is_none (md_valid m) && is_none (md_rel_ts m) && ob_is (md_encrypt m) false
         && match md_processed m with Some (Some _) => true | _ => false end
         && md_no_d15 m && md_no_esb m && md_no_phy m
     | None => false
     end.

(** 802.15.4 *)
Definition wf_d15_pdu (m : d15_pdu) : bool :=
  in_u32 (dp_channel m) && ro_i32 (dp_rssi m) && ro_u64 (dp_timestamp m) && ro_u32 (dp_lqi m) && canon LDot15d4 (dp_pdu m).
Definition wf_d15_raw (m : d15_raw) : bool :=
  in_u32 (dr_channel m) && in_u16 (dr_fcs m) && ro_i32 (dr_rssi m) && ro_u64 (dr_timestamp m) && ro_u32 (dr_lqi m)
  && canon LDot15d4FCS (dr_pdu m ++ le16z (dr_fcs m)).

Definition wfmd_d15 (m : metadata) : bool :=
  mdcls_eqb (md_cls m) MdD15 && is_none (md_raw m) && ob_is (md_decrypted m) false && ro_u64 (md_timestamp m)
  && so_u32 (md_channel m) && ro_i32 (md_rssi m) && ro_u32 (md_lqi m)
  && md_no_ble m && md_no_esb m && md_no_phy m.
Definition wfp_d15_pdu (p : packet) : bool :=
  layer_eqb (p_top p) LDot15d4 && layer_eqb (p_sub p) LRaw && canon LDot15d4 (p_bytes p)
  && match p_md p with Some m => wfmd_d15 m | None => false end.
Definition wfp_d15_raw (p : packet) : bool :=
  layer_eqb (p_top p) LDot15d4FCS && layer_eqb (p_sub p) LRaw && wf_bytes (p_bytes p) && (2 <=? length (p_bytes p))%nat
  && canon LDot15d4FCS (p_bytes p)
  && match p_md p with Some m => wfmd_d15 m | None => false end.

(** ESB / Unifying *)
Definition wf_esb_rx (k : layer) (m : esb_rx) : bool :=
  in_u32 (er_channel m) && ro_i32 (er_rssi m) && ro_u64 (er_timestamp m) && canon k (er_pdu m).
Definition preamble_aa (b : bytes) : bool := match b with x :: _ => N.eqb x 170 | [] => true end.

Definition wfmd_esb (uni : bool) (raw decr : option bool) (m : metadata) : bool :=
  mdcls_eqb (md_cls m) (esb_mdcls uni) && ob_eqb (md_raw m) raw && ob_eqb (md_decrypted m) decr && ro_u64 (md_timestamp m)
  && so_u32 (md_channel m) && ro_i32 (md_rssi m) && is_none (md_retr m)
  && md_no_ble m && md_no_d15 m && md_no_phy m.
Definition wfp_esb_pdu (uni : bool) (p : packet) : bool :=
  layer_eqb (p_top p) (esb_payload uni) && layer_eqb (p_sub p) LRaw && canon (esb_payload uni) (p_bytes p)
  && match p_md p with
     | Some m => wfmd_esb uni (if uni then Some false else None) (if uni then Some false else None) m
     | None => false
     end.
Definition wfp_esb_raw (uni : bool) (p : packet) : bool :=
  layer_eqb (p_top p) (esb_hdr uni) && layer_eqb (p_sub p) LRaw && canon (esb_hdr uni) (p_bytes p)
  && match p_md p with Some m => wfmd_esb uni (Some true) (Some false) m | None => false end.

(** PHY *)
Definition wf_phy_rx1 (m : phy_rx) : bool :=
  in_u32 (pr_frequency m) && ro_i32 (pr_rssi m) && ro_u64 (pr_timestamp m)
  && match pr_iq m with [] => true | _ => false end
  && (pr_deviation m =? 0) && (pr_datarate m =? 0) && (pr_endian m =? 0) && (pr_modulation m =? 0)
  && match pr_syncword m with [] => true | _ => false end.
Definition wf_phy_rx2 (m : phy_rx) : bool :=
  in_u32 (pr_frequency m) && ro_i32 (pr_rssi m) && ro_u64 (pr_timestamp m)
  && match pr_iq m with [] => true | _ => false end
  && in_u32 (pr_deviation m) && in_u32 (pr_datarate m)
  && (0 <=? pr_endian m) && (pr_endian m <=? 1) && (0 <=? pr_modulation m) && (pr_modulation m <=? 7).

Definition wfp_phy (v2 raw : bool) (p : packet) : bool :=
  layer_eqb (p_top p) LPhy && layer_eqb (p_sub p) LRaw
  && match p_md p with
     | Some m =>
         mdcls_eqb (md_cls m) MdPhy && ob_is (md_raw m) raw && is_none (md_decrypted m) && ro_u64 (md_timestamp m)
         && is_none (md_channel m) && ro_i32 (md_rssi m) && is_none (md_valid m) && so_u32 (md_frequency m)
         && (if v2 then
               match md_endianness m with Some e => (0 <=? e) && (e <=? 1) | None => false end
               && so_u32 (md_deviation m) && so_u32 (md_datarate m)
               && match md_modulation m with Some e => (0 <=? e) && (e <=? 7) | None => false end
               && is_some (md_syncword m)
             else is_none (md_endianness m) && is_none (md_deviation m) && is_none (md_datarate m)
                  && is_none (md_modulation m) && is_none (md_syncword m))
         && md_no_ble m && md_no_d15 m && md_no_esb m
     | None => false
     end.

(** ** Packets a connector sends (premise of [convert_packet_send]) and what "same packet" means
    for a send round trip: same top layer, same bytes, same sending options *)
Definition retr_of (m : metadata) : Z := match md_retr m with Some (Some r) => r | _ => 1 end.
Definition send_same (p q : packet) : bool :=
  layer_eqb (p_top p) (p_top q) && bytes_eqb (p_bytes p) (p_bytes q)
  && match p_md p, p_md q with
     | Some a, Some b =>
         mdcls_eqb (md_cls a) (md_cls b) && Bool.eqb (truthy (md_raw a)) (truthy (md_raw b))
         && oz_eqb (md_channel a) (md_channel b) && oz_eqb (md_direction a) (md_direction b)
         && oz_eqb (md_conn a) (md_conn b) && ob_eqb (md_encrypt a) (md_encrypt b)
         && Z.eqb (retr_of a) (retr_of b)
     | _, _ => false
     end.

Definition sendable_ble (p : packet) : bool :=
  match p_md p with
  | Some m =>
      mdcls_eqb (md_cls m) MdBle && so_i32 (md_direction m) && so_u32 (md_conn m) && is_some (md_encrypt m)
      && is_none (md_channel m) && is_none (md_retr m)
      && (if truthy (md_raw m)
          then layer_eqb (p_top p) LBtle && (layer_eqb (p_sub p) LBtleData || layer_eqb (p_sub p) LBtleAdv)
               && wf_bytes (p_bytes p) && (7 <=? length (p_bytes p))%nat
          else layer_eqb (p_top p) LBtleData && canon LBtleData (p_bytes p))
  | None => false
  end.
Definition sendable_d15 (p : packet) : bool :=
  match p_md p with
  | Some m =>
      mdcls_eqb (md_cls m) MdD15 && so_u32 (md_channel m) && is_none (md_direction m) && is_none (md_conn m)
      && is_none (md_encrypt m) && is_none (md_retr m)
      && (if truthy (md_raw m)
          then layer_eqb (p_top p) LDot15d4FCS && wf_bytes (p_bytes p) && (2 <=? length (p_bytes p))%nat
               && canon LDot15d4FCS (p_bytes p)
          else layer_eqb (p_top p) LDot15d4 && canon LDot15d4 (p_bytes p))
  | None => false
  end.
Definition sendable_esb (uni : bool) (p : packet) : bool :=
  match p_md p with
  | Some m =>
      mdcls_eqb (md_cls m) (esb_mdcls uni) && so_u32 (md_channel m) && in_u32 (retr_of m) && is_none (md_direction m)
      && is_none (md_conn m) && is_none (md_encrypt m)
      && (if truthy (md_raw m)
          then layer_eqb (p_top p) (esb_hdr uni) && canon (esb_hdr uni) (p_bytes p)
               && (if uni then preamble_aa (p_bytes p) else true)
          else layer_eqb (p_top p) (esb_payload uni) && canon (esb_payload uni) (p_bytes p))
  | None => false
  end.
Definition sendable_phy (p : packet) : bool :=
  match p_md p with
  | Some m => mdcls_eqb (md_cls m) MdPhy && negb (truthy (md_raw m)) && layer_eqb (p_top p) LPhy
  | None => false
  end.
End WF.

(** ** "never raises" *)
Definition raises {A} (x : out A) : bool := match x with Raise _ => true | _ => false end.

(** ** Premises of the "to_packet never raises" theorem *)
(** scapy raises nothing but what [dissect_failsafe] turns into None (struct.error, ValueError) *)
Definition codec_no_exc (codec : layer -> bytes -> cres) : Prop := forall k b e, codec k b = CExc e -> caught_to e = true.
Definition well_typed (c : cls) (b : body) : bool :=
  match c, b with
  | CBleSendRaw, BBleSendRaw _ | CBleSend, BBleSend _ | CBleAdv, BBleAdv _ | CBlePdu, BBlePdu _ | CBleRaw, BBleRaw _
  | CD15Send, BD15Send _ | CD15SendRaw, BD15SendRaw _ | CD15Pdu, BD15Pdu _ | CD15Raw, BD15Raw _
  | CEsbSend, BEsbTx _ | CEsbSendRaw, BEsbTx _ | CEsbPdu, BEsbRx _ | CEsbRaw, BEsbRx _
  | CUniSend, BEsbTx _ | CUniSendRaw, BEsbTx _ | CUniPdu, BEsbRx _ | CUniRaw, BEsbRx _
  | CPhySend, BPhySend _ | CPhySendRaw, BPhySendRaw _ | CPhyPkt1, BPhyRx _ | CPhyPkt2, BPhyRx _
  | CPhyRaw1, BPhyRx _ | CPhyRaw2, BPhyRx _ => true
  | _, _ => false
  end.


(** ** Witnesses used by the refutations and the non-vacuity example *)
Definition codec_id : layer -> bytes -> cres := fun _ b => COk b LRaw.
Definition md_with (c : mdcls) (ch : option Z) : metadata :=
  {| md_cls := c; md_raw := Some false; md_decrypted := Some false; md_timestamp := None; md_channel := ch;
     md_rssi := None; md_direction := None; md_conn := Some 1; md_valid := None; md_rel_ts := None;
     md_encrypt := Some false; md_processed := Some (Some false); md_lqi := None; md_address := None; md_retr := None;
     md_frequency := None; md_endianness := None; md_deviation := None; md_datarate := None; md_modulation := None;
     md_syncword := None |}.
Definition pkt_with (top : layer) (c : mdcls) (ch : option Z) : packet :=
  {| p_top := top; p_sub := LRaw; p_bytes := [2%N; 0%N]; p_md := Some (md_with c ch) |}.
Definition uni_55 : esb_rx :=
  {| er_channel := 5; er_pdu := [85%N; 17%N; 2%N]; er_rssi := None; er_timestamp := None; er_valid := None; er_address := None |}.
Definition codec_btle : layer -> bytes -> cres := fun k b => COk b (match k with LBtle => LBtleData | _ => LRaw end).
Definition sample_ble_raw : ble_raw :=
  {| br_direction := 1; br_channel := 37; br_rssi := Some (-40); br_timestamp := Some 4294967295;
     br_rel_ts := Some 9223372036854775808; br_valid := Some true; br_aa := 287454020;
     br_pdu := [2%N; 7%N; 3%N; 0%N; 4%N; 0%N; 10%N; 1%N; 0%N]; br_crc := 11259375; br_conn := 3;
     br_processed := true; br_decrypted := true |}.
