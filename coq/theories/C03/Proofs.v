(** C03 — lemmas about the hub packet <-> message model. *)
From Coq Require Import List NArith ZArith Arith Bool Lia ZifyBool ZifyN ZifyNat.
From Whad Require Import Lib.Bytes C03.Model.
Import ListNotations.
Ltac Zify.zify_post_hook ::= Z.to_euclidean_division_equations.
Open Scope Z_scope.

(** ** Setters *)
Lemma set_u32_ok z : in_u32 z = true -> set_u32 (Some z) = Ok z.
Proof. intros H. unfold set_u32. now rewrite H. Qed.
Lemma set_i32_ok z : in_i32 z = true -> set_i32 (Some z) = Ok z.
Proof. intros H. unfold set_i32. now rewrite H. Qed.
Lemma opt_i32_ok v : ro_i32 v = true -> opt_i32 v = Ok v.
Proof. destruct v; cbn [ro_i32 opt_i32]; intros H; [now rewrite H | reflexivity]. Qed.
Lemma opt_u32_ok v : ro_u32 v = true -> opt_u32 v = Ok v.
Proof. destruct v; cbn [ro_u32 opt_u32]; intros H; [now rewrite H | reflexivity]. Qed.
Lemma opt_u64_ok v : ro_u64 v = true -> opt_u64 v = Ok v.
Proof. destruct v; cbn [ro_u64 opt_u64]; intros H; [now rewrite H | reflexivity]. Qed.
Lemma so_u32_inv v : so_u32 v = true -> exists z, v = Some z /\ in_u32 z = true.
Proof. destruct v; cbn; intros H; [eauto | discriminate]. Qed.
Lemma so_i32_inv v : so_i32 v = true -> exists z, v = Some z /\ in_i32 z = true.
Proof. destruct v; cbn; intros H; [eauto | discriminate]. Qed.
Lemma is_none_inv {A} (v : option A) : is_none v = true -> v = None.
Proof. destruct v; cbn; [discriminate | reflexivity]. Qed.
Lemma is_some_inv {A} (v : option A) : is_some v = true -> exists x, v = Some x.
Proof. destruct v; cbn; [eauto | discriminate]. Qed.
Lemma ob_is_inv v b : ob_is v b = true -> v = Some b.
Proof. destruct v as [x|]; cbn; [|discriminate]. destruct x, b; cbn; congruence. Qed.
Lemma ob_eqb_inv a b : ob_eqb a b = true -> a = b.
Proof. destruct a as [[]|], b as [[]|]; cbn; congruence. Qed.
Lemma mdcls_eqb_inv a b : mdcls_eqb a b = true -> a = b.
Proof. destruct a, b; cbn; congruence. Qed.
Lemma layer_eqb_inv a b : layer_eqb a b = true -> a = b.
Proof. destruct a, b; cbn; congruence. Qed.
Lemma layer_eqb_refl a : layer_eqb a a = true.
Proof. destruct a; reflexivity. Qed.
Lemma mdcls_eqb_refl a : mdcls_eqb a a = true.
Proof. destruct a; reflexivity. Qed.
Lemma bytes_eqb_inv a b : bytes_eqb a b = true -> a = b.
Proof. apply bytes_eqb_eq. Qed.

Lemma in_u24_u32 z : in_u24 z = true -> in_u32 z = true.
Proof. unfold in_u24, in_u32, two32. lia. Qed.
Lemma in_u16_u32 z : in_u16 z = true -> in_u32 z = true.
Proof. unfold in_u16, in_u32, two32. lia. Qed.

(** the codec is canonical on [b] *)
Lemma canon_inv codec k b : canon codec k b = true -> exists s, codec k b = COk b s.
Proof.
  unfold canon, wf_pdu. destruct (codec k b) as [b' s| |]; try discriminate.
  intros H. apply bytes_eqb_inv in H. subst. eauto.
Qed.
Lemma dissect_canon codec k b : canon codec k b = true -> exists s, dissect codec k b = Ok (b, s).
Proof. intros H. destruct (canon_inv _ _ _ H) as [s E]. exists s. unfold dissect. now rewrite E. Qed.

Global Opaque set_u32 set_i32 set_u64 opt_i32 opt_u32 opt_u64 in_u32 in_i32 in_u64 in_u16 in_u24 canon.

Ltac split_and :=
  repeat match goal with
  | H : _ && _ = true |- _ => apply andb_prop in H; destruct H
  end.

Ltac inv_opts :=
  repeat match goal with
  | H : so_u32 ?v = true |- _ => let z := fresh "z" in let E := fresh "E" in let R := fresh "R" in
      destruct (so_u32_inv _ H) as [z [E R]]; clear H; try rewrite E in *
  | H : so_i32 ?v = true |- _ => let z := fresh "z" in let E := fresh "E" in let R := fresh "R" in
      destruct (so_i32_inv _ H) as [z [E R]]; clear H; try rewrite E in *
  | H : is_none ?v = true |- _ => apply is_none_inv in H; try rewrite H in *
  | H : is_some ?v = true |- _ => let x := fresh "x" in destruct (is_some_inv _ H) as [x ?]; clear H
  | H : ob_is ?v ?b = true |- _ => apply ob_is_inv in H; try rewrite H in *
  | H : ob_eqb ?a ?b = true |- _ => apply ob_eqb_inv in H
  | H : mdcls_eqb ?a ?b = true |- _ => apply mdcls_eqb_inv in H
  | H : layer_eqb ?a ?b = true |- _ => apply layer_eqb_inv in H
  end.

Ltac setters :=
  repeat first
  [ rewrite set_u32_ok by assumption
  | rewrite set_i32_ok by assumption
  | rewrite opt_i32_ok by assumption
  | rewrite opt_u32_ok by assumption
  | rewrite opt_u64_ok by assumption ].

(** ** 802.15.4 PduReceived *)
Lemma d15_pdu_from_to_body codec m :
  wf_d15_pdu codec m = true -> bind (d15_pdu_to_body codec m) d15_pdu_from_body = Ok m.
Proof.
  destruct m as [ch pdu rssi ts valid lqi]. unfold wf_d15_pdu. cbn [dp_channel dp_pdu dp_rssi dp_timestamp dp_valid dp_lqi].
  intros H. split_and.
  destruct (dissect_canon _ _ _ H0) as [s E].
  unfold d15_pdu_to_body. cbn [dp_pdu]. rewrite E. cbn [bind fst].
  unfold d15_pdu_from_body, has_d15, get_md, md_d15. cbn.
  setters. reflexivity.
Qed.

Ltac proj_red H :=
  cbn [p_top p_sub p_bytes p_md md_cls md_raw md_decrypted md_timestamp md_channel md_rssi md_direction md_conn
       md_valid md_rel_ts md_encrypt md_processed md_lqi md_address md_retr md_frequency md_endianness
       md_deviation md_datarate md_modulation md_syncword] in H.
Ltac use_wf H := proj_red H; split_and; inv_opts; subst.
Ltac use_canon :=
  match goal with
  | H : canon _ _ _ = true |- _ =>
      let s := fresh "s" in let E := fresh "E" in destruct (dissect_canon _ _ _ H) as [s E]
  end.

Lemma d15_pdu_to_from_body codec p :
  wfp_d15_pdu codec p = true -> bind (d15_pdu_from_body p) (d15_pdu_to_body codec) = Ok p.
Proof.
  destruct p as [top sub b [m|]]; [destruct m|]; unfold wfp_d15_pdu, wfmd_d15, md_no_ble, md_no_esb, md_no_phy;
    intros H; use_wf H; try discriminate.
  use_canon.
  unfold d15_pdu_from_body, has_d15, get_md. cbn. setters. cbn.
  unfold d15_pdu_to_body. cbn. rewrite E. cbn. reflexivity.
Qed.

(** ** Bytes *)
Transparent in_u32 in_u16 in_u24.

Lemma zb_bz z : zb (bz z) = z mod 256.
Proof. unfold zb, bz. rewrite Z2N.id; [reflexivity|]. apply Z.mod_pos_bound. lia. Qed.
Lemma bz_zb x : (x < 256)%N -> bz (zb x) = x.
Proof. intros H. unfold zb, bz. rewrite Z.mod_small by lia. apply N2Z.id. Qed.

Lemma butlastn_app (h t : bytes) : butlastn (length t) (h ++ t) = h.
Proof.
  unfold butlastn. rewrite app_length. replace (length h + length t - length t)%nat with (length h) by lia.
  rewrite firstn_app, firstn_all, Nat.sub_diag. cbn. apply app_nil_r.
Qed.
Lemma lastn_app (h t : bytes) : lastn (length t) (h ++ t) = t.
Proof.
  unfold lastn. rewrite app_length. replace (length h + length t - length t)%nat with (length h) by lia.
  rewrite skipn_app, skipn_all, Nat.sub_diag. reflexivity.
Qed.

Lemma split_lastn (n : nat) (b : bytes) : (n <= length b)%nat -> b = butlastn n b ++ lastn n b /\ length (lastn n b) = n.
Proof.
  intros H. unfold butlastn, lastn. split; [symmetry; apply firstn_skipn|]. rewrite skipn_length. lia.
Qed.

Lemma wf_bytes_forall b : wf_bytes b = true -> forall x, In x b -> (x < 256)%N.
Proof. unfold wf_bytes. intros H x Hx. rewrite forallb_forall in H. specialize (H x Hx). unfold wf_byte in H. lia. Qed.

Lemma un_le16z_le16z z : in_u16 z = true -> un_le16z (le16z z) = z.
Proof. unfold in_u16, un_le16z, le16z. intros H. rewrite !zb_bz. lia. Qed.
Lemma le16z_un_le16z x y : (x < 256)%N -> (y < 256)%N -> le16z (un_le16z [x; y]) = [x; y] /\ in_u16 (un_le16z [x; y]) = true.
Proof.
  intros Hx Hy. unfold le16z, un_le16z, in_u16. split; [|unfold zb; lia].
  f_equal; [|f_equal]; unfold bz, zb.
  - replace ((Z.of_N x + 256 * Z.of_N y) mod 256) with (Z.of_N x) by lia. apply N2Z.id.
  - replace (((Z.of_N x + 256 * Z.of_N y) / 256) mod 256) with (Z.of_N y) by lia. apply N2Z.id.
Qed.

Lemma split_fcs_app pdu fcs : in_u16 fcs = true -> split_fcs (pdu ++ le16z fcs) = (pdu, fcs).
Proof.
  intros H. unfold split_fcs.
  change 2%nat with (length (le16z fcs)). rewrite butlastn_app, lastn_app, un_le16z_le16z by assumption. reflexivity.
Qed.

Lemma list_len2 (l : bytes) : length l = 2%nat -> exists x y, l = [x; y].
Proof. destruct l as [|x [|y [|z l]]]; cbn; try discriminate. eauto. Qed.
Lemma list_len3 (l : bytes) : length l = 3%nat -> exists x y z, l = [x; y; z].
Proof. destruct l as [|x [|y [|z [|w l]]]]; cbn; try discriminate. eauto. Qed.

Lemma join_fcs b : wf_bytes b = true -> (2 <= length b)%nat ->
  fst (split_fcs b) ++ le16z (snd (split_fcs b)) = b /\ in_u16 (snd (split_fcs b)) = true.
Proof.
  intros Hw Hl. destruct (split_lastn 2 b Hl) as [Eb El]. destruct (list_len2 _ El) as [x [y Exy]].
  unfold split_fcs. cbn [fst snd]. rewrite Exy.
  assert (Hx : (x < 256)%N) by (apply (wf_bytes_forall b Hw); rewrite Eb, Exy; apply in_or_app; right; cbn; auto).
  assert (Hy : (y < 256)%N) by (apply (wf_bytes_forall b Hw); rewrite Eb, Exy; apply in_or_app; right; cbn; auto).
  destruct (le16z_un_le16z x y Hx Hy) as [E1 E2]. rewrite E1. split; [|exact E2].
  rewrite <- Exy. symmetry. exact Eb.
Qed.

(** BTLE frames *)
Lemma un_le32z_le32z z r : in_u32 z = true -> un_le32z (le32z z ++ r) = z.
Proof. unfold in_u32, two32, un_le32z, le32z. intros H. cbn [app]. rewrite !zb_bz. lia. Qed.
Lemma un_be24z_be24z z : in_u24 z = true -> un_be24z (be24z z) = z.
Proof. unfold in_u24, un_be24z, be24z. intros H. rewrite !zb_bz. lia. Qed.

Lemma btle_frame_parts aa pdu crc :
  in_u32 aa = true -> in_u24 crc = true ->
  let f := btle_frame aa pdu crc in
  un_le32z f = aa /\ un_be24z (lastn 3 f) = crc /\ butlastn 3 (skipn 4 f) = pdu /\ (length f <? 7)%nat = false.
Proof.
  intros Ha Hc f. unfold f, btle_frame. repeat split.
  - apply un_le32z_le32z; assumption.
  - rewrite app_assoc. change 3%nat with (length (be24z crc)). rewrite lastn_app. apply un_be24z_be24z; assumption.
  - cbn [le32z app skipn]. change 3%nat with (length (be24z crc)). apply butlastn_app.
  - rewrite !app_length. cbn [le32z be24z length]. apply Nat.ltb_ge. lia.
Qed.

Lemma btle_frame_join b : wf_bytes b = true -> (7 <= length b)%nat ->
  btle_frame (un_le32z b) (butlastn 3 (skipn 4 b)) (un_be24z (lastn 3 b)) = b
  /\ in_u32 (un_le32z b) = true /\ in_u24 (un_be24z (lastn 3 b)) = true.
Proof.
  intros Hw Hl.
  destruct b as [|a0 [|a1 [|a2 [|a3 r]]]]; cbn [length] in Hl; try lia.
  assert (Hr : (3 <= length r)%nat) by (cbn [length] in Hl; lia).
  destruct (split_lastn 3 r Hr) as [Er El]. destruct (list_len3 _ El) as [c0 [c1 [c2 Ec]]].
  assert (Hlast : lastn 3 (a0 :: a1 :: a2 :: a3 :: r) = [c0; c1; c2]).
  { rewrite Er, Ec. change (a0 :: a1 :: a2 :: a3 :: butlastn 3 r ++ [c0; c1; c2]) with ((a0 :: a1 :: a2 :: a3 :: butlastn 3 r) ++ [c0; c1; c2]).
    change 3%nat with (length [c0; c1; c2]) at 1. apply lastn_app. }
  pose proof (wf_bytes_forall _ Hw) as Hb.
  assert (H0 : (a0 < 256)%N) by (apply Hb; cbn; auto).
  assert (H1 : (a1 < 256)%N) by (apply Hb; cbn; auto).
  assert (H2 : (a2 < 256)%N) by (apply Hb; cbn; auto).
  assert (H3 : (a3 < 256)%N) by (apply Hb; cbn; auto).
  assert (Hc : forall c, In c [c0; c1; c2] -> (c < 256)%N).
  { intros c Hc. apply Hb. do 4 right. rewrite Er, Ec. apply in_or_app. right. exact Hc. }
  assert (Hc0 : (c0 < 256)%N) by (apply Hc; cbn; auto).
  assert (Hc1 : (c1 < 256)%N) by (apply Hc; cbn; auto).
  assert (Hc2 : (c2 < 256)%N) by (apply Hc; cbn; auto).
  rewrite Hlast. cbn [skipn]. unfold btle_frame, un_le32z, un_be24z, in_u32, in_u24, two32.
  split; [|unfold zb; lia].
  unfold le32z, be24z. cbn [app].
  assert (Etail : r = butlastn 3 r ++ [c0; c1; c2]) by (rewrite <- Ec; exact Er).
  set (mid := butlastn 3 r) in *. clearbody mid. subst r.
  unfold bz, zb.
  repeat (f_equal; [match goal with |- Z.to_N ?e = ?x => replace e with (Z.of_N x) by lia; apply N2Z.id end|]).
  f_equal.
  repeat (f_equal; [match goal with |- Z.to_N ?e = ?x => replace e with (Z.of_N x) by lia; apply N2Z.id end|]).
  f_equal. match goal with |- Z.to_N ?e = ?x => replace e with (Z.of_N x) by lia; apply N2Z.id end.
Qed.
Global Opaque in_u32 in_u16 in_u24 split_fcs.

(** ** 802.15.4 RawPduReceived *)
Lemma d15_raw_from_to_body codec m :
  wf_d15_raw codec m = true -> bind (d15_raw_to_body codec m) d15_raw_from_body = Ok m.
Proof.
  destruct m as [ch pdu fcs rssi ts valid lqi]. unfold wf_d15_raw. cbn [dr_channel dr_pdu dr_fcs dr_rssi dr_timestamp dr_valid dr_lqi].
  intros H. split_and.
  match goal with Hc : canon _ _ _ = true |- _ => destruct (canon_inv _ _ _ Hc) as [s E] end.
  unfold d15_raw_to_body. cbn [dr_fcs dr_pdu dr_channel dr_rssi dr_timestamp dr_valid dr_lqi].
  match goal with Hf : in_u16 fcs = true |- _ => rewrite Hf; pose proof (in_u16_u32 _ Hf) end.
  cbn [negb]. rewrite E. cbn [bind].
  unfold d15_raw_from_body. cbn [p_top p_bytes p_md layer_eqb orb get_md md_d15].
  replace (length (pdu ++ le16z fcs) <? 2)%nat with false
    by (symmetry; apply Nat.ltb_ge; rewrite app_length; cbn; lia).
  rewrite split_fcs_app by assumption. cbn. setters. reflexivity.
Qed.

Lemma d15_raw_to_from_body codec p :
  wfp_d15_raw codec p = true -> bind (d15_raw_from_body p) (d15_raw_to_body codec) = Ok p.
Proof.
  destruct p as [top sub b [m|]]; [destruct m|]; unfold wfp_d15_raw, wfmd_d15, md_no_ble, md_no_esb, md_no_phy;
    intros H; use_wf H; try discriminate.
  match goal with Hl : (2 <=? length b)%nat = true |- _ => apply Nat.leb_le in Hl end.
  match goal with Hw : wf_bytes b = true, Hl : (2 <= length b)%nat |- _ => destruct (join_fcs b Hw Hl) as [Ej Eu] end.
  match goal with Hc : canon _ _ _ = true |- _ => destruct (canon_inv _ _ _ Hc) as [s E] end.
  unfold d15_raw_from_body. cbn [p_top p_bytes p_md layer_eqb orb get_md].
  replace (length b <? 2)%nat with false by (symmetry; apply Nat.ltb_ge; assumption).
  cbn. pose proof (in_u16_u32 _ Eu). setters. cbn.
  unfold d15_raw_to_body. cbn. rewrite Eu. cbn. rewrite Ej, E. reflexivity.
Qed.

(** ** ESB / Unifying *)
Lemma force_preamble_id b : preamble_aa b = true -> force_preamble b = b.
Proof. destruct b as [|x t]; cbn; [reflexivity|]. intros H. apply N.eqb_eq in H. now subst. Qed.

Lemma esb_pdu_from_to_body codec uni m :
  wf_esb_rx codec (esb_payload uni) m = true -> bind (esb_pdu_to_body codec uni m) (esb_rx_from_body false) = Ok m.
Proof.
  destruct m as [ch pdu rssi ts valid addr]. unfold wf_esb_rx. cbn [er_channel er_pdu er_rssi er_timestamp er_valid er_address].
  intros H. split_and. use_canon.
  unfold esb_pdu_to_body. cbn [er_pdu]. rewrite E. cbn [bind fst].
  unfold esb_rx_from_body, get_md, md_esb. cbn. setters. reflexivity.
Qed.

Lemma esb_raw_from_to_body codec uni m :
  wf_esb_rx codec (esb_hdr uni) m = true -> (if uni then preamble_aa (er_pdu m) else true) = true ->
  bind (esb_raw_to_body codec uni m) (esb_rx_from_body uni) = Ok m.
Proof.
  destruct m as [ch pdu rssi ts valid addr]. unfold wf_esb_rx. cbn [er_channel er_pdu er_rssi er_timestamp er_valid er_address].
  intros H Hp. split_and. use_canon.
  unfold esb_raw_to_body. cbn [er_pdu]. rewrite E. cbn [bind fst].
  unfold esb_rx_from_body, get_md, md_esb. destruct uni; cbn; [rewrite (force_preamble_id _ Hp)|]; setters; reflexivity.
Qed.

Lemma esb_pdu_to_from_body codec uni p :
  wfp_esb_pdu codec uni p = true -> bind (esb_rx_from_body false p) (esb_pdu_to_body codec uni) = Ok p.
Proof.
  destruct p as [top sub b [m|]]; [destruct m|]; unfold wfp_esb_pdu, wfmd_esb, md_no_ble, md_no_d15, md_no_phy;
    intros H; use_wf H; try discriminate.
  use_canon.
  unfold esb_rx_from_body, get_md. cbn. setters. cbn.
  unfold esb_pdu_to_body. cbn. rewrite E. cbn. unfold md_esb. destruct uni; reflexivity.
Qed.

Lemma esb_raw_to_from_body codec uni p :
  wfp_esb_raw codec uni p = true -> (if uni then preamble_aa (p_bytes p) else true) = true ->
  bind (esb_rx_from_body uni p) (esb_raw_to_body codec uni) = Ok p.
Proof.
  destruct p as [top sub b [m|]]; [destruct m|]; unfold wfp_esb_raw, wfmd_esb, md_no_ble, md_no_d15, md_no_phy;
    intros H Hp; use_wf H; try discriminate.
  use_canon. cbn [p_bytes] in Hp.
  unfold esb_rx_from_body, get_md.
  destruct uni; cbn [esb_hdr] in E; cbn; [rewrite (force_preamble_id _ Hp)|]; setters; cbn;
    unfold esb_raw_to_body; cbn; rewrite E; reflexivity.
Qed.

(** ** PHY *)
Transparent in_i32 opt_i32 opt_u32.
Lemma opt_i32_small e : (0 <=? e) = true -> (e <=? 7) = true -> opt_i32 (Some e) = Ok (Some e).
Proof. intros A B. unfold opt_i32. assert (H : in_i32 e = true) by (unfold in_i32, two31; lia). now rewrite H. Qed.
Lemma opt_u32_some z : in_u32 z = true -> opt_u32 (Some z) = Ok (Some z).
Proof. intros H. unfold opt_u32. now rewrite H. Qed.
Global Opaque in_i32 opt_i32 opt_u32.

Lemma phy_rx1_from_to_body raw m : wf_phy_rx1 m = true -> bind (phy_rx1_to_body raw m) phy_rx1_from_body = Ok m.
Proof.
  destruct m as [f pk rssi ts iq de da en mo sw]. unfold wf_phy_rx1.
  cbn [pr_frequency pr_packet pr_rssi pr_timestamp pr_iq pr_deviation pr_datarate pr_endian pr_modulation pr_syncword].
  intros H. split_and. destruct iq; [|discriminate]. destruct sw; [|discriminate].
  repeat match goal with H : (_ =? 0) = true |- _ => apply Z.eqb_eq in H; subst end.
  unfold phy_rx1_to_body, phy_rx1_from_body, get_md, md_phy. cbn. setters. reflexivity.
Qed.

Lemma phy_rx1_to_from_body raw p : wfp_phy false raw p = true -> bind (phy_rx1_from_body p) (phy_rx1_to_body raw) = Ok p.
Proof.
  destruct p as [top sub b [m|]]; [destruct m|]; unfold wfp_phy, md_no_ble, md_no_d15, md_no_esb;
    intros H; use_wf H; try discriminate.
  unfold phy_rx1_from_body, get_md. cbn. setters. cbn. unfold phy_rx1_to_body, md_phy. cbn. reflexivity.
Qed.

Lemma phy_rx2_from_to_body raw m : wf_phy_rx2 m = true -> bind (phy_rx2_to_body raw m) phy_rx2_from_body = Ok m.
Proof.
  destruct m as [f pk rssi ts iq de da en mo sw]. unfold wf_phy_rx2.
  cbn [pr_frequency pr_packet pr_rssi pr_timestamp pr_iq pr_deviation pr_datarate pr_endian pr_modulation pr_syncword].
  intros H. split_and. destruct iq; [|discriminate].
  unfold phy_rx2_to_body. cbn [pr_endian pr_modulation].
  repeat match goal with H : (_ <=? _) = true |- _ => rewrite H end. cbn [andb negb bind].
  unfold phy_rx2_from_body, get_md, md_phy. cbn. setters.
  rewrite (opt_i32_small en), (opt_i32_small mo) by (assumption || lia). try rewrite !opt_u32_some by assumption. reflexivity.
Qed.

Lemma phy_rx2_to_from_body raw p : wfp_phy true raw p = true -> bind (phy_rx2_from_body p) (phy_rx2_to_body raw) = Ok p.
Proof.
  destruct p as [top sub b [m|]]; [destruct m|]; unfold wfp_phy, md_no_ble, md_no_d15, md_no_esb;
    intros H; use_wf H; try discriminate.
  repeat match goal with
  | H : match ?v with Some _ => _ | None => false end = true |- _ => destruct v; [|discriminate]
  end. split_and.
  unfold phy_rx2_from_body, get_md. cbn. setters.
  match goal with A : (0 <=? ?e) = true, B : (?e <=? 1) = true |- _ => rewrite (opt_i32_small e) by (assumption || lia) end.
  match goal with A : (0 <=? ?e) = true, B : (?e <=? 7) = true |- _ => rewrite (opt_i32_small e) by (assumption || lia) end.
  try rewrite !opt_u32_some by assumption. cbn.
  unfold phy_rx2_to_body. cbn.
  repeat match goal with H : (_ <=? _) = true |- _ => rewrite H end. cbn. reflexivity.
Qed.

(** ** BLE *)
Lemma ble_pdu_from_to_body codec m : wf_ble_pdu codec m = true -> bind (ble_pdu_to_body codec m) ble_pdu_from_body = Ok m.
Proof.
  destruct m as [d pdu c pr de]. unfold wf_ble_pdu. cbn [bp_direction bp_pdu bp_conn bp_processed bp_decrypted].
  intros H. split_and. use_canon.
  unfold ble_pdu_to_body. cbn [bp_pdu]. rewrite E. cbn [bind fst].
  unfold ble_pdu_from_body, has_data, get_md, get_processed, md_ble_pdu, inner. cbn. setters. reflexivity.
Qed.

Lemma ble_pdu_to_from_body codec p : wfp_ble_pdu codec p = true -> bind (ble_pdu_from_body p) (ble_pdu_to_body codec) = Ok p.
Proof.
  destruct p as [top sub b [m|]]; [destruct m|]; unfold wfp_ble_pdu, md_no_d15, md_no_esb, md_no_phy;
    intros H; use_wf H; try discriminate.
  destruct md_processed as [[pr|]|]; try discriminate.
  use_canon.
  unfold ble_pdu_from_body, has_data, get_md, get_processed, inner. cbn. setters. cbn.
  unfold ble_pdu_to_body. cbn. rewrite E. reflexivity.
Qed.

Global Opaque btle_frame le32z be24z un_le32z un_be24z.

Lemma canon_btle_inv codec f : canon_btle codec f = true ->
  exists s, codec LBtle f = COk f s /\ (s = LBtleData \/ s = LBtleAdv).
Proof.
  unfold canon_btle. destruct (codec LBtle f) as [b s| |]; try discriminate. intros H. split_and.
  apply bytes_eqb_inv in H. subst. exists s. split; [reflexivity|].
  apply orb_prop in H0. destruct H0 as [A|A]; apply layer_eqb_inv in A; auto.
Qed.

Lemma ble_raw_from_to_body codec m : wf_ble_raw codec m = true -> bind (ble_raw_to_body codec m) ble_raw_from_body = Ok m.
Proof.
  destruct m as [d ch rssi ts rel valid aa pdu crc conn pr de]. unfold wf_ble_raw.
  cbn [br_direction br_channel br_rssi br_timestamp br_rel_ts br_valid br_aa br_pdu br_crc br_conn br_processed br_decrypted].
  intros H. split_and.
  match goal with Hc : canon_btle _ _ = true |- _ => destruct (canon_btle_inv _ _ Hc) as [s [E Hs]] end.
  match goal with Ha : in_u32 aa = true, Hc : in_u24 crc = true |- _ =>
    destruct (btle_frame_parts aa pdu crc Ha Hc) as [P1 [P2 [P3 P4]]]; pose proof (in_u24_u32 _ Hc) end.
  unfold ble_raw_to_body. cbn [br_aa br_crc br_pdu br_direction br_channel br_rssi br_timestamp br_rel_ts br_valid br_conn br_processed br_decrypted].
  change (le32z aa ++ pdu ++ be24z crc) with (btle_frame aa pdu crc).
  repeat match goal with H : in_u32 _ = true |- _ => rewrite H end. cbn [andb negb].
  unfold dissect. rewrite E. cbn [bind fst snd].
  unfold ble_raw_from_body, has_btle, ble_extract, has_data, has_ctrl, has_adv, btle_aa_crc, inner, get_md, get_processed.
  cbn [p_top p_sub p_bytes p_md layer_eqb andb orb]. rewrite P1, P2, P3, P4.
  destruct Hs; subst s; cbn; setters; reflexivity.
Qed.

Lemma ble_raw_to_from_body codec p : wfp_ble_raw codec p = true -> bind (ble_raw_from_body p) (ble_raw_to_body codec) = Ok p.
Proof.
  destruct p as [top sub b [m|]]; [destruct m|]; unfold wfp_ble_raw, md_no_d15, md_no_esb, md_no_phy;
    intros H; use_wf H; try discriminate.
  destruct md_processed as [[pr|]|]; try discriminate.
  destruct (codec LBtle b) as [b' s'| |] eqn:E; try discriminate; split_and.
  match goal with H : bytes_eqb b' b = true |- _ => apply bytes_eqb_inv in H; subst b' end.
  match goal with H : layer_eqb s' sub = true |- _ => apply layer_eqb_inv in H; subst s' end.
  match goal with Hl : (7 <=? length b)%nat = true |- _ => apply Nat.leb_le in Hl end.
  match goal with Hw : wf_bytes b = true, Hl : (7 <= length b)%nat |- _ => destruct (btle_frame_join b Hw Hl) as [J1 [J2 J3]] end.
  pose proof (in_u24_u32 _ J3).
  assert (Hsub : ble_extract {| p_top := LBtle; p_sub := sub; p_bytes := b; p_md := None |} = Ok (butlastn 3 (skipn 4 b))).
  { unfold ble_extract, has_data, has_ctrl, has_adv, inner. cbn [p_top p_sub p_bytes layer_eqb andb orb].
    match goal with H : layer_eqb sub LBtleData || layer_eqb sub LBtleAdv = true |- _ => destruct sub; try discriminate H; reflexivity end. }
  unfold ble_raw_from_body, has_btle, btle_aa_crc, get_md, get_processed.
  unfold ble_extract, has_data, has_ctrl, has_adv, inner in *. cbn [p_top p_sub p_bytes p_md layer_eqb andb orb] in *.
  rewrite Hsub. replace (length b <? 7)%nat with false by (symmetry; apply Nat.ltb_ge; assumption).
  cbn. setters. cbn.
  unfold ble_raw_to_body. cbn. repeat match goal with H : in_u32 _ = true |- _ => rewrite H end. cbn.
  match goal with |- context[dissect codec LBtle ?f] => replace f with b by (symmetry; exact J1) end.
  unfold dissect. rewrite E. reflexivity.
Qed.

(** advertising PDUs *)
Lemma adv_tables t cls pt : adv_layer_of_type t = Some (cls, pt) ->
  adv_of_pdu_type pt = Some (cls, t) /\ (pt = 0 \/ pt = 1 \/ pt = 2 \/ pt = 4 \/ pt = 6).
Proof.
  unfold adv_layer_of_type.
  repeat match goal with |- context[?a =? ?b] => destruct (Z.eqb_spec a b); [subst; intros H; inversion H; subst; cbn; split; [reflexivity|lia]|] end.
  discriminate.
Qed.
Lemma adv_tables_inv pt cls t : adv_of_pdu_type pt = Some (cls, t) ->
  adv_layer_of_type t = Some (cls, pt) /\ (pt = 0 \/ pt = 1 \/ pt = 2 \/ pt = 4 \/ pt = 6).
Proof.
  unfold adv_of_pdu_type.
  repeat match goal with |- context[?a =? ?b] => destruct (Z.eqb_spec a b); [subst; intros H; inversion H; subst; cbn; split; [reflexivity|lia]|] end.
  discriminate.
Qed.

Lemma skipn_app_len {A} (a b : list A) n : length a = n -> skipn n (a ++ b) = b.
Proof. intros <-. rewrite skipn_app, skipn_all, Nat.sub_diag. reflexivity. Qed.
Lemma firstn_app_len {A} (a b : list A) n : length a = n -> firstn n (a ++ b) = a.
Proof. intros <-. rewrite firstn_app, firstn_all, Nat.sub_diag. cbn. apply app_nil_r. Qed.

Lemma ble_adv_from_to_body codec m : wf_ble_adv codec m = true -> bind (ble_adv_to_body codec m) (ble_adv_from_body codec) = Ok m.
Proof.
  destruct m as [t rssi addr data at_]. unfold wf_ble_adv. cbn [ba_type ba_rssi ba_addr ba_data ba_addr_type].
  intros H. split_and.
  destruct (adv_layer_of_type t) as [[cls pt]|] eqn:Et; [|discriminate]. split_and.
  destruct (adv_tables _ _ _ Et) as [Einv Hpt].
  match goal with Hc : canon _ _ _ = true |- _ => destruct (canon_inv _ _ _ Hc) as [s Ec] end.
  match goal with Hl : (length addr =? 6)%nat = true |- _ => pose proof Hl as Hl6; apply Nat.eqb_eq in Hl6 end.
  unfold ble_adv_to_body. cbn [ba_type ba_rssi ba_addr ba_data ba_addr_type]. rewrite Et.
  match goal with Hl : (length addr =? 6)%nat = true |- _ => rewrite Hl end. cbn [negb].
  unfold dissect. rewrite Ec. cbn [bind fst].
  unfold ble_adv_from_body, has_adv, inner, get_md, md_ble_adv. cbn [p_top p_sub p_bytes p_md layer_eqb orb andb].
  assert (Hh : zb (bz (pt + (if at_ =? 1 then 64 else 0))) = pt + (if at_ =? 1 then 64 else 0)).
  { rewrite zb_bz. destruct (at_ =? 1); lia. }
  rewrite Hh.
  assert (Hm : (pt + (if at_ =? 1 then 64 else 0)) mod 16 = pt) by (destruct (at_ =? 1); lia).
  rewrite Hm, Einv, Ec. cbn [bind].
  cbn [md_rssi]. rewrite set_i32_ok by assumption. cbn [bind].
  rewrite (firstn_app_len addr data 6 Hl6), (skipn_app_len addr data 6 Hl6).
  assert (Hd : (if layer_eqb cls LAdvDirect then firstn 6 data else data) = data).
  { destruct (layer_eqb cls LAdvDirect); [|reflexivity].
    match goal with Hx : (length data =? 6)%nat = true |- _ => apply Nat.eqb_eq in Hx; rewrite <- Hx; apply firstn_all end. }
  rewrite Hd.
  assert (Ha : (if ((pt + (if at_ =? 1 then 64 else 0)) / 64) mod 2 =? 1 then 1 else 0) = at_).
  { match goal with Hx : (at_ =? 0) || (at_ =? 1) = true |- _ => apply orb_prop in Hx; destruct Hx as [Hx|Hx]; apply Z.eqb_eq in Hx; subst at_ end;
      destruct Hpt as [?|[?|[?|[?|?]]]]; subst pt; reflexivity. }
  rewrite Ha. reflexivity.
Qed.

Lemma ble_adv_to_from_body codec p : wfp_ble_adv codec p = true -> bind (ble_adv_from_body codec p) (ble_adv_to_body codec) = Ok p.
Proof.
  destruct p as [top sub b [m|]]; [destruct m|]; unfold wfp_ble_adv, md_no_d15, md_no_esb, md_no_phy;
    intros H; proj_red H; split_and; try discriminate.
  destruct b as [|h0 [|l pay]]; try discriminate.
  destruct (adv_of_pdu_type (zb h0 mod 16)) as [[cls at_]|] eqn:Et; [|discriminate]. split_and. inv_opts. subst.
  destruct md_direction as [d|]; [|discriminate].
  match goal with Hd : (d =? 0) = true |- _ => apply Z.eqb_eq in Hd; subst d end.
  destruct (adv_tables_inv _ _ _ Et) as [Einv Hpt].
  match goal with Hc : canon _ _ _ = true |- _ => destruct (canon_inv _ _ _ Hc) as [s Ec] end.
  match goal with Hl : (6 <=? length pay)%nat = true |- _ => apply Nat.leb_le in Hl; rename Hl into Hl6 end.
  match goal with Hw : wf_bytes [h0; l] = true |- _ => pose proof (wf_bytes_forall _ Hw) as Hb end.
  assert (Hh0 : (h0 < 256)%N) by (apply Hb; cbn; auto).
  assert (Hl0 : (l < 256)%N) by (apply Hb; cbn; auto).
  unfold ble_adv_from_body, has_adv, inner, get_md. cbn [p_top p_sub p_bytes p_md layer_eqb orb andb].
  rewrite Et, Ec. cbn [bind md_rssi]. rewrite set_i32_ok by assumption. cbn [bind].
  unfold ble_adv_to_body. cbn [ba_type ba_rssi ba_addr ba_data ba_addr_type]. rewrite Einv.
  assert (Hlen6 : length (firstn 6 pay) = 6%nat) by (rewrite firstn_length; lia).
  rewrite Hlen6. cbn [Nat.eqb negb].
  assert (Hpay : firstn 6 pay ++ (if layer_eqb cls LAdvDirect then firstn 6 (skipn 6 pay) else skipn 6 pay) = pay).
  { destruct (layer_eqb cls LAdvDirect).
    - match goal with Hx : (length pay =? 12)%nat = true |- _ => apply Nat.eqb_eq in Hx end.
      rewrite (firstn_all2 (skipn 6 pay)) by (rewrite skipn_length; lia). apply firstn_skipn.
    - apply firstn_skipn. }
  rewrite Hpay. unfold dissect. rewrite Ec. cbn [bind fst].
  assert (Hhdr : bz (zb h0 mod 16 + (if (if (zb h0 / 64) mod 2 =? 1 then 1 else 0) =? 1 then 64 else 0)) = h0).
  { assert (Hx : zb h0 = zb h0 mod 16 \/ zb h0 = zb h0 mod 16 + 64).
    { match goal with Hy : (zb h0 =? zb h0 mod 16) || (zb h0 =? zb h0 mod 16 + 64) = true |- _ =>
        apply orb_prop in Hy; destruct Hy as [Hy|Hy]; apply Z.eqb_eq in Hy; auto end. }
    destruct Hx as [Hx|Hx].
    - replace ((zb h0 / 64) mod 2 =? 1) with false by lia. cbn [Z.eqb]. rewrite Z.add_0_r, <- Hx. apply bz_zb; assumption.
    - replace ((zb h0 / 64) mod 2 =? 1) with true by lia. cbn [Z.eqb Pos.eqb]. rewrite <- Hx. apply bz_zb; assumption. }
  rewrite Hhdr.
  match goal with Hy : (zb l =? Z.of_nat (length pay)) = true |- _ => apply Z.eqb_eq in Hy; rewrite <- Hy end.
  rewrite (bz_zb l Hl0). unfold md_ble_adv. reflexivity.
Qed.

(** ** convert_packet: the send message built for a packet a connector sends, turned back into a packet *)
Lemma bytes_eqb_refl b : bytes_eqb b b = true.
Proof. apply bytes_eqb_eq. reflexivity. Qed.
Lemma oz_eqb_refl v : oz_eqb v v = true.
Proof. destruct v; cbn; [apply Z.eqb_refl | reflexivity]. Qed.
Lemma ob_eqb_refl v : ob_eqb v v = true.
Proof. destruct v as [[]|]; reflexivity. Qed.

Ltac finish_same :=
  rewrite ?bytes_eqb_refl, ?oz_eqb_refl, ?ob_eqb_refl, ?Z.eqb_refl, ?eqb_reflx, ?layer_eqb_refl, ?mdcls_eqb_refl; cbn;
  rewrite ?bytes_eqb_refl, ?oz_eqb_refl, ?ob_eqb_refl, ?Z.eqb_refl, ?eqb_reflx, ?layer_eqb_refl, ?mdcls_eqb_refl; try reflexivity.

Lemma ble_convert_send codec p : sendable_ble codec p = true ->
  exists s q, hub_convert p = Ok (SBle s) /\ send_to_packet codec (SBle s) = Ok q /\ send_same p q = true.
Proof.
  destruct p as [top sub b [m|]];
    [destruct m as [mc mraw mdec mts mch mrssi mdir mconn mvalid mrel menc mproc mlqi maddr mretr mfreq men mde mda mmo msw]|];
    unfold sendable_ble; intros H; proj_red H; split_and; try discriminate.
  inv_opts. subst.
  destruct mraw as [[|]|]; cbn [truthy] in *; split_and; inv_opts; subst.
  - (* raw *)
    match goal with Hl : (7 <=? length b)%nat = true |- _ => apply Nat.leb_le in Hl end.
    match goal with Hw : wf_bytes b = true, Hl : (7 <= length b)%nat |- _ => destruct (btle_frame_join b Hw Hl) as [J1 [J2 J3]] end.
    pose proof (in_u24_u32 _ J3).
    assert (Hsub : ble_extract {| p_top := LBtle; p_sub := sub; p_bytes := b; p_md := None |} = Ok (butlastn 3 (skipn 4 b))).
    { unfold ble_extract, has_data, has_ctrl, has_adv, inner. cbn [p_top p_sub p_bytes layer_eqb andb orb].
      match goal with H : layer_eqb sub LBtleData || layer_eqb sub LBtleAdv = true |- _ => destruct sub; try discriminate H; reflexivity end. }
    unfold ble_extract, has_data, has_ctrl, has_adv, inner in Hsub. cbn [p_top p_sub p_bytes p_md layer_eqb andb orb] in Hsub.
    eexists. eexists. split; [|split].
    + unfold hub_convert, md_or_none, ble_convert, ble_send_raw_from, ble_send_raw_from_body, get_md, has_btle, btle_aa_crc.
      unfold ble_extract, has_data, has_ctrl, has_adv, inner.
      cbn [p_top p_sub p_bytes p_md md_cls md_raw md_encrypt md_direction md_conn bind mdcls_eqb truthy layer_eqb negb andb orb].
      rewrite Hsub. replace (length b <? 7)%nat with false by (symmetry; apply Nat.ltb_ge; assumption).
      cbn [bind fst snd]. setters. cbn [bind set_bool]. reflexivity.
    + cbn [send_to_packet]. unfold ble_send_raw_to, ble_send_raw_to_body. reflexivity.
    + unfold send_same, md_ble_send.
      cbn [p_top p_bytes p_md md_cls md_raw md_channel md_direction md_conn md_encrypt md_retr retr_of bsr_aa bsr_pdu bsr_crc
           bsr_direction bsr_conn bsr_encrypt layer_eqb mdcls_eqb truthy Bool.eqb].
      replace (le32z (un_le32z b) ++ butlastn 3 (skipn 4 b) ++ be24z (un_be24z (lastn 3 b))) with b by (symmetry; exact J1).
      rewrite bytes_eqb_refl, !oz_eqb_refl, ob_eqb_refl. reflexivity.
  - (* raw = Some false *)
    use_canon.
    eexists. eexists. split; [|split].
    + unfold hub_convert, md_or_none, ble_convert, ble_send_from, ble_send_from_body, get_md, ble_extract, has_data, has_ctrl, has_adv, inner.
      cbn [p_top p_sub p_bytes p_md md_cls md_raw md_encrypt md_direction md_conn bind mdcls_eqb truthy layer_eqb negb andb orb].
      setters. cbn [bind set_bool]. reflexivity.
    + cbn [send_to_packet]. unfold ble_send_to, ble_send_to_body. cbn [bs_pdu]. rewrite E. reflexivity.
    + unfold send_same, md_ble_send. cbn. finish_same.
  - (* raw = None *)
    use_canon.
    eexists. eexists. split; [|split].
    + unfold hub_convert, md_or_none, ble_convert, ble_send_from, ble_send_from_body, get_md, ble_extract, has_data, has_ctrl, has_adv, inner.
      cbn [p_top p_sub p_bytes p_md md_cls md_raw md_encrypt md_direction md_conn bind mdcls_eqb truthy layer_eqb negb andb orb].
      setters. cbn [bind set_bool]. reflexivity.
    + cbn [send_to_packet]. unfold ble_send_to, ble_send_to_body. cbn [bs_pdu]. rewrite E. reflexivity.
    + unfold send_same, md_ble_send. cbn. finish_same.
Qed.

Lemma d15_convert_send codec p : sendable_d15 codec p = true ->
  exists s q, hub_convert p = Ok (SD15 s) /\ send_to_packet codec (SD15 s) = Ok q /\ send_same p q = true.
Proof.
  destruct p as [top sub b [m|]];
    [destruct m as [mc mraw mdec mts mch mrssi mdir mconn mvalid mrel menc mproc mlqi maddr mretr mfreq men mde mda mmo msw]|];
    unfold sendable_d15; intros H; proj_red H; split_and; try discriminate.
  inv_opts. subst.
  destruct mraw as [[|]|]; cbn [truthy] in *; split_and; inv_opts; subst.
  - match goal with Hl : (2 <=? length b)%nat = true |- _ => apply Nat.leb_le in Hl end.
    match goal with Hw : wf_bytes b = true, Hl : (2 <= length b)%nat |- _ => destruct (join_fcs b Hw Hl) as [Ej Eu] end.
    use_canon.
    eexists. eexists. split; [|split].
    + unfold hub_convert, md_or_none, d15_convert, d15_send_raw_from, d15_send_raw_from_body, get_md, md_or_none.
      cbn [p_top p_sub p_bytes p_md md_cls md_raw md_channel bind mdcls_eqb truthy layer_eqb negb andb orb].
      replace (length b <? 2)%nat with false by (symmetry; apply Nat.ltb_ge; assumption).
      setters. cbn [bind]. reflexivity.
    + cbn [send_to_packet]. unfold d15_send_raw_to, d15_send_raw_to_body. cbn [dsr_fcs dsr_pdu dsr_channel]. rewrite Eu. cbn [negb].
      rewrite Ej, E. reflexivity.
    + unfold send_same, md_d15. cbn. finish_same.
  - use_canon. eexists. eexists. split; [|split].
    + unfold hub_convert, md_or_none, d15_convert, d15_send_from, d15_send_from_body, has_d15, get_md, md_or_none.
      cbn [p_top p_sub p_bytes p_md md_cls md_raw md_channel bind mdcls_eqb truthy layer_eqb negb andb orb].
      setters. cbn [bind]. reflexivity.
    + cbn [send_to_packet]. unfold d15_send_to, d15_send_to_body. cbn [ds_pdu]. rewrite E. reflexivity.
    + unfold send_same, md_d15. cbn. finish_same.
  - use_canon. eexists. eexists. split; [|split].
    + unfold hub_convert, md_or_none, d15_convert, d15_send_from, d15_send_from_body, has_d15, get_md, md_or_none.
      cbn [p_top p_sub p_bytes p_md md_cls md_raw md_channel bind mdcls_eqb truthy layer_eqb negb andb orb].
      setters. cbn [bind]. reflexivity.
    + cbn [send_to_packet]. unfold d15_send_to, d15_send_to_body. cbn [ds_pdu]. rewrite E. reflexivity.
    + unfold send_same, md_d15. cbn. finish_same.
Qed.

Lemma esb_convert_send codec uni p : sendable_esb codec uni p = true ->
  exists s q, hub_convert p = Ok ((if uni then SUni else SEsb) s)
              /\ send_to_packet codec ((if uni then SUni else SEsb) s) = Ok q /\ send_same p q = true.
Proof.
  destruct uni;
  (destruct p as [top sub b [m|]];
    [destruct m as [mc mraw mdec mts mch mrssi mdir mconn mvalid mrel menc mproc mlqi maddr mretr mfreq men mde mda mmo msw]|];
    unfold sendable_esb; intros H; proj_red H; split_and; try discriminate;
  inv_opts; subst;
  assert (Hr : set_u32 (match mretr with Some (Some r) => Some r | _ => Some 1 end)
               = Ok (match mretr with Some (Some r) => r | _ => 1 end))
    by (match goal with Hx : in_u32 (retr_of _) = true |- _ => unfold retr_of in Hx; cbn [md_retr] in Hx end;
        destruct mretr as [[r|]|]; apply set_u32_ok; assumption);
  destruct mraw as [[|]|]; cbn [truthy] in *; split_and; inv_opts; subst; use_canon;
  (eexists; eexists; split; [|split];
   [ unfold hub_convert, md_or_none, esb_convert, esb_tx_from, esb_tx_from_body, get_md, md_or_none;
     cbn [esb_mdcls p_top p_sub p_bytes p_md md_cls md_raw md_channel md_retr bind mdcls_eqb truthy];
     rewrite Hr; setters; cbn [bind]; reflexivity
   | cbn [send_to_packet]; unfold esb_send_raw_to, esb_send_raw_to_body, esb_send_to, esb_send_to_body; cbn [et_pdu esb_hdr esb_payload] in *; rewrite E; cbn [bind fst]; reflexivity
   | unfold send_same, md_esb, retr_of; cbn;
     try match goal with Hp : preamble_aa b = true |- _ => rewrite (force_preamble_id _ Hp) end;
     destruct mretr as [[r|]|]; finish_same ])).
Qed.

Lemma phy_convert_send codec p : sendable_phy p = true ->
  exists s q, hub_convert p = Ok (SPhy s) /\ send_to_packet codec (SPhy s) = Ok q
              /\ p_top q = p_top p /\ p_bytes q = p_bytes p.
Proof.
  destruct p as [top sub b [m|]];
    [destruct m as [mc mraw mdec mts mch mrssi mdir mconn mvalid mrel menc mproc mlqi maddr mretr mfreq men mde mda mmo msw]|];
    unfold sendable_phy; intros H; proj_red H; split_and; try discriminate.
  inv_opts. subst.
  exists (PSend {| ps_packet := b |}). eexists. split; [|split; [|split]].
  - unfold hub_convert, md_or_none, phy_convert, get_md, md_or_none. cbn [p_md md_cls md_raw bind mdcls_eqb].
    match goal with Hx : negb (truthy mraw) = true |- _ => apply negb_true_iff in Hx; rewrite Hx end.
    reflexivity.
  - reflexivity.
  - reflexivity.
  - reflexivity.
Qed.

(** ** The decorated methods: [convert_failsafe] / [dissect_failsafe] around the bodies *)
Lemma lift_from_to {A} (tob : out packet) (fromb : packet -> out A) (m : A) :
  bind tob fromb = Ok m -> bind (failsafe_to tob) (fun p => failsafe (fromb p)) = Ok m.
Proof. destruct tob as [p| |e]; cbn; try discriminate. intros ->. reflexivity. Qed.
Lemma lift_to_from {A} (fromb : out A) (tob : A -> out packet) (p : packet) :
  bind fromb tob = Ok p -> bind (failsafe fromb) (fun m => failsafe_to (tob m)) = Ok p.
Proof. destruct fromb as [m| |e]; cbn; try discriminate. intros ->. reflexivity. Qed.

Lemma d15_pdu_from_to codec m : wf_d15_pdu codec m = true -> bind (d15_pdu_to codec m) d15_pdu_from = Ok m.
Proof. intros H. apply (lift_from_to (d15_pdu_to_body codec m) d15_pdu_from_body), d15_pdu_from_to_body, H. Qed.
Lemma d15_pdu_to_from codec p : wfp_d15_pdu codec p = true -> bind (d15_pdu_from p) (d15_pdu_to codec) = Ok p.
Proof. intros H. apply (lift_to_from (d15_pdu_from_body p) (d15_pdu_to_body codec)), d15_pdu_to_from_body, H. Qed.
Lemma d15_raw_from_to codec m : wf_d15_raw codec m = true -> bind (d15_raw_to codec m) d15_raw_from = Ok m.
Proof. intros H. apply (lift_from_to (d15_raw_to_body codec m) d15_raw_from_body), d15_raw_from_to_body, H. Qed.
Lemma d15_raw_to_from codec p : wfp_d15_raw codec p = true -> bind (d15_raw_from p) (d15_raw_to codec) = Ok p.
Proof. intros H. apply (lift_to_from (d15_raw_from_body p) (d15_raw_to_body codec)), d15_raw_to_from_body, H. Qed.
Lemma esb_pdu_from_to codec uni m :
  wf_esb_rx codec (esb_payload uni) m = true -> bind (esb_pdu_to codec uni m) (esb_rx_from false) = Ok m.
Proof. intros H. apply (lift_from_to (esb_pdu_to_body codec uni m) (esb_rx_from_body false)), esb_pdu_from_to_body, H. Qed.
Lemma esb_raw_from_to codec uni m :
  wf_esb_rx codec (esb_hdr uni) m = true -> (if uni then preamble_aa (er_pdu m) else true) = true ->
  bind (esb_raw_to codec uni m) (esb_rx_from uni) = Ok m.
Proof. intros H Hp. apply (lift_from_to (esb_raw_to_body codec uni m) (esb_rx_from_body uni)), esb_raw_from_to_body; assumption. Qed.
Lemma esb_pdu_to_from codec uni p :
  wfp_esb_pdu codec uni p = true -> bind (esb_rx_from false p) (esb_pdu_to codec uni) = Ok p.
Proof. intros H. apply (lift_to_from (esb_rx_from_body false p) (esb_pdu_to_body codec uni)), esb_pdu_to_from_body, H. Qed.
Lemma esb_raw_to_from codec uni p :
  wfp_esb_raw codec uni p = true -> (if uni then preamble_aa (p_bytes p) else true) = true ->
  bind (esb_rx_from uni p) (esb_raw_to codec uni) = Ok p.
Proof. intros H Hp. apply (lift_to_from (esb_rx_from_body uni p) (esb_raw_to_body codec uni)), esb_raw_to_from_body; assumption. Qed.
Lemma phy_rx1_from_to raw m : wf_phy_rx1 m = true -> bind (phy_rx1_to raw m) phy_rx1_from = Ok m.
Proof. intros H. apply (lift_from_to (phy_rx1_to_body raw m) phy_rx1_from_body), phy_rx1_from_to_body, H. Qed.
Lemma phy_rx1_to_from raw p : wfp_phy false raw p = true -> bind (phy_rx1_from p) (phy_rx1_to raw) = Ok p.
Proof. intros H. apply (lift_to_from (phy_rx1_from_body p) (phy_rx1_to_body raw)), phy_rx1_to_from_body, H. Qed.
Lemma phy_rx2_from_to raw m : wf_phy_rx2 m = true -> bind (phy_rx2_to raw m) phy_rx2_from = Ok m.
Proof. intros H. apply (lift_from_to (phy_rx2_to_body raw m) phy_rx2_from_body), phy_rx2_from_to_body, H. Qed.
Lemma phy_rx2_to_from raw p : wfp_phy true raw p = true -> bind (phy_rx2_from p) (phy_rx2_to raw) = Ok p.
Proof. intros H. apply (lift_to_from (phy_rx2_from_body p) (phy_rx2_to_body raw)), phy_rx2_to_from_body, H. Qed.
Lemma ble_pdu_from_to codec m : wf_ble_pdu codec m = true -> bind (ble_pdu_to codec m) ble_pdu_from = Ok m.
Proof. intros H. apply (lift_from_to (ble_pdu_to_body codec m) ble_pdu_from_body), ble_pdu_from_to_body, H. Qed.
Lemma ble_pdu_to_from codec p : wfp_ble_pdu codec p = true -> bind (ble_pdu_from p) (ble_pdu_to codec) = Ok p.
Proof. intros H. apply (lift_to_from (ble_pdu_from_body p) (ble_pdu_to_body codec)), ble_pdu_to_from_body, H. Qed.
Lemma ble_raw_from_to codec m : wf_ble_raw codec m = true -> bind (ble_raw_to codec m) ble_raw_from = Ok m.
Proof. intros H. apply (lift_from_to (ble_raw_to_body codec m) ble_raw_from_body), ble_raw_from_to_body, H. Qed.
Lemma ble_raw_to_from codec p : wfp_ble_raw codec p = true -> bind (ble_raw_from p) (ble_raw_to codec) = Ok p.
Proof. intros H. apply (lift_to_from (ble_raw_from_body p) (ble_raw_to_body codec)), ble_raw_to_from_body, H. Qed.
Lemma ble_adv_from_to codec m : wf_ble_adv codec m = true -> bind (ble_adv_to codec m) (ble_adv_from codec) = Ok m.
Proof. intros H. apply (lift_from_to (ble_adv_to_body codec m) (ble_adv_from_body codec)), ble_adv_from_to_body, H. Qed.
Lemma ble_adv_to_from codec p : wfp_ble_adv codec p = true -> bind (ble_adv_from codec p) (ble_adv_to codec) = Ok p.
Proof. intros H. apply (lift_to_from (ble_adv_from_body codec p) (ble_adv_to_body codec)), ble_adv_to_from_body, H. Qed.

(** ** from_packet never raises *)
Definition only_caught {A} (x : out A) : bool := match x with Raise e => caught_from e | _ => true end.
Lemma oc_bind {A B} (x : out A) (f : A -> out B) :
  only_caught x = true -> (forall a, only_caught (f a) = true) -> only_caught (bind x f) = true.
Proof. destruct x; cbn; auto. Qed.
Lemma failsafe_no_raise {A} (x : out A) : only_caught x = true -> raises (failsafe x) = false.
Proof. destruct x as [a| |e]; cbn; try reflexivity. intros H. now rewrite H. Qed.
Lemma omap_no_raise {A B} (f : A -> B) (x : out A) : raises x = false -> raises (omap f x) = false.
Proof. destruct x; cbn; auto. Qed.

Transparent set_u32 set_i32 opt_i32 opt_u32 opt_u64.
Lemma oc_set_u32 v : only_caught (set_u32 v) = true.
Proof. unfold set_u32. destruct v as [z|]; [destruct (in_u32 z)|]; reflexivity. Qed.
Lemma oc_set_i32 v : only_caught (set_i32 v) = true.
Proof. unfold set_i32. destruct v as [z|]; [destruct (in_i32 z)|]; reflexivity. Qed.
Lemma oc_set_bool v : only_caught (set_bool v) = true.
Proof. destruct v; reflexivity. Qed.
Lemma oc_opt_i32 v : only_caught (opt_i32 v) = true.
Proof. unfold opt_i32. destruct v as [z|]; [destruct (in_i32 z)|]; reflexivity. Qed.
Lemma oc_opt_u32 v : only_caught (opt_u32 v) = true.
Proof. unfold opt_u32. destruct v as [z|]; [destruct (in_u32 z)|]; reflexivity. Qed.
Lemma oc_opt_u64 v : only_caught (opt_u64 v) = true.
Proof. unfold opt_u64. destruct v as [z|]; [destruct (in_u64 z)|]; reflexivity. Qed.
Global Opaque set_u32 set_i32 opt_i32 opt_u32 opt_u64.
Lemma oc_get_md p : only_caught (get_md p) = true.
Proof. unfold get_md. destruct (p_md p); reflexivity. Qed.
Lemma oc_get_processed m : only_caught (get_processed m) = true.
Proof. unfold get_processed. destruct (md_processed m); reflexivity. Qed.
Lemma oc_aa_crc p : only_caught (btle_aa_crc p) = true.
Proof. unfold btle_aa_crc. destruct (length (p_bytes p) <? 7)%nat; reflexivity. Qed.
Lemma oc_extract p : only_caught (ble_extract p) = true.
Proof. unfold ble_extract. destruct (has_data p), (has_ctrl p), (has_adv p); reflexivity. Qed.

Ltac oc :=
  repeat first
  [ reflexivity
  | apply oc_set_u32 | apply oc_set_i32 | apply oc_set_bool | apply oc_opt_i32 | apply oc_opt_u32 | apply oc_opt_u64
  | apply oc_get_md | apply oc_get_processed | apply oc_aa_crc | apply oc_extract
  | apply oc_bind; [|intros ?]
  | match goal with |- context[if ?c then _ else _] => destruct c end
  | match goal with |- only_caught (match ?x with _ => _ end) = true => destruct x end ].

Lemma from_packet_never_raises codec c kw p : raises (from_packet_any codec c kw p) = false.
Proof.
  destruct c; cbn [from_packet_any]; apply omap_no_raise; try reflexivity;
    unfold ble_send_raw_from, ble_send_from, ble_adv_from, ble_pdu_from, ble_raw_from, d15_send_from, d15_send_raw_from,
      d15_pdu_from, d15_raw_from, esb_tx_from, esb_rx_from, phy_rx1_from, phy_rx2_from;
    apply failsafe_no_raise;
    unfold ble_send_raw_from_body, ble_send_from_body, ble_adv_from_body, ble_pdu_from_body, ble_raw_from_body, d15_send_from_body,
      d15_send_raw_from_body, d15_pdu_from_body, d15_raw_from_body, esb_tx_from_body, esb_rx_from_body, phy_rx1_from_body,
      phy_rx2_from_body; cbn zeta; oc.
Qed.

Lemma omap_raises_inv {A B} (f : A -> B) (x : out A) : raises (omap f x) = false -> raises x = false.
Proof. destruct x; cbn; auto. Qed.
Lemma bind_ok_no_raise {A B C} (x : out A) (g : A -> B) (k : B -> C) :
  raises x = false -> raises (bind (bind x (fun a => Ok (g a))) (fun b => Ok (k b))) = false.
Proof. destruct x; cbn; auto. Qed.

Definition kw_of (e : option bool) (ch r : option Z) : kwargs := {| kw_encrypt := e; kw_channel := ch; kw_retr := r |}.
Lemma nr_ble_send_raw e p : raises (ble_send_raw_from e p) = false.
Proof. exact (omap_raises_inv _ _ (from_packet_never_raises (fun _ _ => CStruct) CBleSendRaw (kw_of e None None) p)). Qed.
Lemma nr_ble_send e p : raises (ble_send_from e p) = false.
Proof. exact (omap_raises_inv _ _ (from_packet_never_raises (fun _ _ => CStruct) CBleSend (kw_of e None None) p)). Qed.
Lemma nr_d15_send_raw ch p : raises (d15_send_raw_from ch p) = false.
Proof. exact (omap_raises_inv _ _ (from_packet_never_raises (fun _ _ => CStruct) CD15SendRaw (kw_of None ch None) p)). Qed.
Lemma nr_d15_send ch p : raises (d15_send_from ch p) = false.
Proof. exact (omap_raises_inv _ _ (from_packet_never_raises (fun _ _ => CStruct) CD15Send (kw_of None ch None) p)). Qed.
Lemma nr_esb_tx r p : raises (esb_tx_from r p) = false.
Proof. exact (omap_raises_inv _ _ (from_packet_never_raises (fun _ _ => CStruct) CEsbSend (kw_of None None r) p)). Qed.

Lemma hub_convert_never_raises p : raises (hub_convert p) = false.
Proof.
  unfold hub_convert, md_or_none. destruct (p_md p) as [md|] eqn:Emd; [|reflexivity]. cbn [bind].
  destruct (md_cls md) eqn:Ec;
    unfold ble_convert, d15_convert, esb_convert, phy_convert, md_or_none; try rewrite Emd; cbn [bind]; rewrite ?Ec;
    cbn [mdcls_eqb esb_mdcls]; try reflexivity; destruct (truthy (md_raw md));
    try (apply bind_ok_no_raise; first [apply nr_ble_send_raw | apply nr_ble_send | apply nr_d15_send_raw | apply nr_d15_send | apply nr_esb_tx]);
    reflexivity.
Qed.

(** ** Inputs a conversion cannot represent give None *)
Lemma ble_adv_to_unknown codec m : adv_layer_of_type (ba_type m) = None -> ble_adv_to codec m = NoneR.
Proof. intros H. unfold ble_adv_to, ble_adv_to_body. now rewrite H. Qed.
Lemma ble_adv_to_bad_addr codec m : length (ba_addr m) <> 6%nat -> ble_adv_to codec m = NoneR.
Proof.
  intros H. unfold ble_adv_to, ble_adv_to_body. destruct (adv_layer_of_type (ba_type m)) as [[c pt]|]; [|reflexivity].
  apply Nat.eqb_neq in H. now rewrite H.
Qed.

Lemma failsafe_none {A} (x : out A) : x = NoneR -> failsafe x = NoneR.
Proof. intros ->. reflexivity. Qed.
Lemma failsafe_to_none {A} (x : out A) : x = NoneR -> failsafe_to x = NoneR.
Proof. intros ->. reflexivity. Qed.

Lemma from_without_layer :
  (forall p, has_btle p = false -> ble_raw_from p = NoneR)
  /\ (forall p, has_data p = false -> ble_pdu_from p = NoneR)
  /\ (forall codec p, has_adv p = false -> ble_adv_from codec p = NoneR)
  /\ (forall e p, has_btle p = false -> ble_send_raw_from e p = NoneR)
  /\ (forall e p, has_data p = false -> has_ctrl p = false -> has_adv p = false -> ble_send_from e p = NoneR)
  /\ (forall p, has_d15 p = false -> d15_pdu_from p = NoneR)
  /\ (forall p, layer_eqb (p_top p) LDot15d4FCS || layer_eqb (p_top p) LDot15d4Raw = false -> d15_raw_from p = NoneR)
  /\ (forall ch p, has_d15 p || layer_eqb (p_top p) LDot15d4Raw = false -> d15_send_from ch p = NoneR)
  /\ (forall ch p, has_d15 p || layer_eqb (p_top p) LDot15d4Raw = false -> d15_send_raw_from ch p = NoneR)
  /\ (forall p md, p_md p = Some md -> md_cls md = MdOther -> hub_convert p = NoneR).
Proof.
  repeat split; intros.
  - apply failsafe_none. unfold ble_raw_from_body. now rewrite H.
  - apply failsafe_none. unfold ble_pdu_from_body. now rewrite H.
  - apply failsafe_none. unfold ble_adv_from_body. now rewrite H.
  - unfold ble_send_raw_from, ble_send_raw_from_body, get_md. destruct (p_md p); cbn [bind]; [rewrite H|]; reflexivity.
  - unfold ble_send_from, ble_send_from_body, get_md, ble_extract. destruct (p_md p); cbn [bind]; [rewrite H, H0, H1|]; reflexivity.
  - apply failsafe_none. unfold d15_pdu_from_body. now rewrite H.
  - apply failsafe_none. unfold d15_raw_from_body. now rewrite H.
  - apply failsafe_none. unfold d15_send_from_body. now rewrite H.
  - apply failsafe_none. unfold d15_send_raw_from_body. unfold has_d15 in H.
    destruct (layer_eqb (p_top p) LDot15d4FCS), (layer_eqb (p_top p) LDot15d4), (layer_eqb (p_top p) LDot15d4Raw); try discriminate; reflexivity.
  - unfold hub_convert, md_or_none. rewrite H. cbn [bind]. now rewrite H0.
Qed.

(** a packet without metadata, or whose metadata lacks an item the message needs *)
Lemma from_without_metadata codec c kw p :
  p_md p = None -> match c with CPhySend | CPhySendRaw | CD15Send | CD15SendRaw => false | _ => true end = true ->
  from_packet_any codec c kw p = NoneR.
Proof.
  intros H Hc.
  destruct c; try discriminate Hc; cbn [from_packet_any];
    unfold ble_send_raw_from, ble_send_from, ble_adv_from, ble_pdu_from, ble_raw_from, d15_send_from, d15_send_raw_from,
      d15_pdu_from, d15_raw_from, esb_tx_from, esb_rx_from, phy_rx1_from, phy_rx2_from,
      ble_send_raw_from_body, ble_send_from_body, ble_adv_from_body, ble_pdu_from_body, ble_raw_from_body, d15_send_from_body,
      d15_send_raw_from_body, d15_pdu_from_body, d15_raw_from_body, esb_tx_from_body, esb_rx_from_body, phy_rx1_from_body,
      phy_rx2_from_body, get_md, ble_extract, btle_aa_crc; rewrite ?H; cbn zeta; cbn [bind failsafe caught_from omap].
  all: try reflexivity.
  all: repeat match goal with
       | |- context[if ?c then _ else _] => destruct c
       | |- context[match ?x with _ => _ end] => destruct x
       end; cbn [bind failsafe caught_from omap]; try reflexivity.
Qed.
Lemma hub_convert_without_metadata p : p_md p = None -> hub_convert p = NoneR.
Proof. intros H. unfold hub_convert, md_or_none. now rewrite H. Qed.

Transparent set_u32.
Lemma set_u32_none_caught {A} (f : Z -> out A) : failsafe (bind (set_u32 None) f) = NoneR.
Proof. reflexivity. Qed.
Global Opaque set_u32.

(** the channel (802.15.4, ESB, Unifying) / the frequency (PHY) is None *)
Lemma from_without_channel :
  (forall p md, p_md p = Some md -> md_channel md = None -> d15_pdu_from p = NoneR /\ d15_raw_from p = NoneR)
  /\ (forall f p md, p_md p = Some md -> md_channel md = None -> esb_rx_from f p = NoneR)
  /\ (forall r p md, p_md p = Some md -> md_channel md = None -> esb_tx_from r p = NoneR)
  /\ (forall p md, p_md p = Some md -> md_frequency md = None -> phy_rx1_from p = NoneR /\ phy_rx2_from p = NoneR)
  /\ (forall p md, p_md p = Some md -> md_cls md = MdD15 -> md_channel md = None -> hub_convert p = NoneR).
Proof.
  repeat split; intros.
  - unfold d15_pdu_from, d15_pdu_from_body, get_md. rewrite H. destruct (negb (has_d15 p)); [reflexivity|]. cbn [bind]. rewrite H0. reflexivity.
  - unfold d15_raw_from, d15_raw_from_body, get_md. rewrite H.
    destruct (layer_eqb (p_top p) LDot15d4FCS || layer_eqb (p_top p) LDot15d4Raw); [|reflexivity].
    destruct (length (p_bytes p) <? 2)%nat; [reflexivity|]. cbn zeta. cbn [bind]. rewrite H0. reflexivity.
  - unfold esb_rx_from, esb_rx_from_body, get_md. rewrite H. cbn zeta. cbn [bind]. rewrite H0. reflexivity.
  - unfold esb_tx_from, esb_tx_from_body, get_md. rewrite H. cbn [bind]. rewrite H0. reflexivity.
  - unfold phy_rx1_from, phy_rx1_from_body, get_md. rewrite H. cbn [bind]. rewrite H0. reflexivity.
  - unfold phy_rx2_from, phy_rx2_from_body, get_md. rewrite H. cbn [bind]. rewrite H0. reflexivity.
  - unfold hub_convert, md_or_none. rewrite H. cbn [bind]. rewrite H0.
    unfold d15_convert, md_or_none. rewrite H. cbn [bind]. rewrite H0. cbn [mdcls_eqb]. rewrite H1.
    unfold d15_send_raw_from, d15_send_from, d15_send_raw_from_body, d15_send_from_body.
    destruct (truthy (md_raw md)); cbn zeta;
      repeat match goal with |- context[if ?c then _ else _] => destruct c end; reflexivity.
Qed.

(** a PDU scapy cannot dissect (struct.error) gives None through dissect_failsafe; a raw 802.15.4
    frame falls back to Dot15d4Raw *)
Lemma to_packet_undissectable codec :
  (forall m, codec LBtleData (bs_pdu m) = CStruct -> ble_send_to codec m = NoneR)
  /\ (forall m, codec LBtleData (bp_pdu m) = CStruct -> ble_pdu_to codec m = NoneR)
  /\ (forall m, codec LBtle (le32z (br_aa m) ++ br_pdu m ++ be24z (br_crc m)) = CStruct -> ble_raw_to codec m = NoneR)
  /\ (forall m, codec LDot15d4 (ds_pdu m) = CStruct -> d15_send_to codec m = NoneR)
  /\ (forall m, codec LDot15d4 (dp_pdu m) = CStruct -> d15_pdu_to codec m = NoneR)
  /\ (forall m, codec LDot15d4FCS (dsr_pdu m ++ le16z (dsr_fcs m)) = CStruct -> d15_send_raw_to codec m = NoneR)
  /\ (forall uni m, codec (esb_payload uni) (et_pdu m) = CStruct -> esb_send_to codec uni m = NoneR)
  /\ (forall uni m, codec (esb_hdr uni) (et_pdu m) = CStruct -> esb_send_raw_to codec uni m = NoneR)
  /\ (forall uni m, codec (esb_payload uni) (er_pdu m) = CStruct -> esb_pdu_to codec uni m = NoneR)
  /\ (forall uni m, codec (esb_hdr uni) (er_pdu m) = CStruct -> esb_raw_to codec uni m = NoneR)
  /\ (forall m, in_u16 (dr_fcs m) = true -> codec LDot15d4FCS (dr_pdu m ++ le16z (dr_fcs m)) = CStruct ->
        exists p, d15_raw_to codec m = Ok p /\ p_top p = LDot15d4Raw /\ p_bytes p = dr_pdu m ++ le16z (dr_fcs m)).
Proof.
  repeat split; intros;
    try (apply failsafe_to_none;
         unfold ble_send_to_body, ble_pdu_to_body, d15_send_to_body, d15_pdu_to_body, esb_send_to_body, esb_send_raw_to_body,
           esb_pdu_to_body, esb_raw_to_body, dissect;
         rewrite H; reflexivity).
  - apply failsafe_to_none. unfold ble_raw_to_body, dissect. destruct (negb (in_u32 (br_aa m) && in_u32 (br_crc m))); [reflexivity|]. rewrite H. reflexivity.
  - apply failsafe_to_none. unfold d15_send_raw_to_body, dissect. destruct (negb (in_u16 (dsr_fcs m))); [reflexivity|]. rewrite H. reflexivity.
  - unfold d15_raw_to, d15_raw_to_body. rewrite H. cbn [negb]. rewrite H0. eexists. repeat split.
Qed.

(** out-of-range integers (struct.pack raises struct.error) and PHY endian / modulation values outside
    their enum (ValueError) give None *)
Lemma to_packet_out_of_range codec :
  (forall m, in_u32 (br_aa m) && in_u32 (br_crc m) = false -> ble_raw_to codec m = NoneR)
  /\ (forall m, in_u16 (dsr_fcs m) = false -> d15_send_raw_to codec m = NoneR)
  /\ (forall m, in_u16 (dr_fcs m) = false -> d15_raw_to codec m = NoneR)
  /\ (forall raw m, (0 <=? pr_endian m) && (pr_endian m <=? 1) && ((0 <=? pr_modulation m) && (pr_modulation m <=? 7)) = false ->
        phy_rx2_to raw m = NoneR).
Proof.
  repeat split; intros.
  - apply failsafe_to_none. unfold ble_raw_to_body. now rewrite H.
  - apply failsafe_to_none. unfold d15_send_raw_to_body. now rewrite H.
  - apply failsafe_to_none. unfold d15_raw_to_body. now rewrite H.
  - unfold phy_rx2_to, phy_rx2_to_body.
    destruct ((0 <=? pr_endian m) && (pr_endian m <=? 1)); cbn [negb]; [|reflexivity].
    cbn [andb] in H. rewrite H. reflexivity.
Qed.

(** ** to_packet raises only when scapy raises something dissect_failsafe does not catch, and for the
    PHY SendRawPacket message (known finding) *)
Lemma dissect_only_to codec k b : codec_no_exc codec -> raises (failsafe_to (bind (dissect codec k b) (fun r => Ok r))) = false.
Proof. intros H. unfold dissect. destruct (codec k b) eqn:E; try reflexivity. cbn. now rewrite (H _ _ _ E). Qed.

Definition only_caught_to {A} (x : out A) : bool := match x with Raise e => caught_to e | _ => true end.
Lemma failsafe_to_no_raise {A} (x : out A) : only_caught_to x = true -> raises (failsafe_to x) = false.
Proof. destruct x as [a| |e]; cbn; try reflexivity. intros H. now rewrite H. Qed.
Lemma oct_bind {A B} (x : out A) (f : A -> out B) :
  only_caught_to x = true -> (forall a, only_caught_to (f a) = true) -> only_caught_to (bind x f) = true.
Proof. destruct x; cbn; auto. Qed.
Lemma oct_dissect codec k b : codec_no_exc codec -> only_caught_to (dissect codec k b) = true.
Proof. intros H. unfold dissect. destruct (codec k b) eqn:E; try reflexivity. exact (H _ _ _ E). Qed.

Lemma to_packet_total codec c b :
  codec_no_exc codec -> well_typed c b = true -> match c with CPhySendRaw => false | _ => true end = true ->
  raises (to_packet_any codec c b) = false.
Proof.
  intros Hc Hw He.
  destruct c, b; try discriminate Hw; try discriminate He; cbn [to_packet_any];
    unfold ble_send_raw_to, ble_send_to, ble_adv_to, ble_pdu_to, ble_raw_to, d15_send_to, d15_send_raw_to, d15_pdu_to, d15_raw_to,
      esb_send_to, esb_send_raw_to, esb_pdu_to, esb_raw_to, phy_send_to, phy_rx1_to, phy_rx2_to;
    apply failsafe_to_no_raise;
    unfold ble_send_raw_to_body, ble_send_to_body, ble_adv_to_body, ble_pdu_to_body, ble_raw_to_body, d15_send_to_body,
      d15_send_raw_to_body, d15_pdu_to_body, d15_raw_to_body, esb_send_to_body, esb_send_raw_to_body, esb_pdu_to_body,
      esb_raw_to_body, phy_send_to_body, phy_rx1_to_body, phy_rx2_to_body; cbn zeta;
    repeat first
    [ reflexivity
    | apply oct_dissect; assumption
    | apply oct_bind; [|intros ?]
    | match goal with |- context[if ?c then _ else _] => destruct c end
    | match goal with |- only_caught_to (match ?x with _ => _ end) = true => destruct x eqn:? end
    | match goal with E : codec _ _ = CExc ?e |- only_caught_to (Raise ?e) = true => exact (Hc _ _ _ E) end ].
Qed.

(** ** Refutations (known findings): concrete witnesses, evaluated by the kernel's VM *)
(** what used to raise now gives None (regression witnesses of the repaired findings) *)
Lemma metadata_none_witnesses :
  from_packet_any codec_id CBlePdu kw_default (pkt_with LBtleData MdBle None) = NoneR
  /\ from_packet_any codec_id CD15Pdu kw_default (pkt_with LDot15d4 MdD15 None) = NoneR
  /\ hub_convert (pkt_with LDot15d4 MdD15 None) = NoneR
  /\ from_packet_any codec_id CEsbPdu kw_default (pkt_with LEsbPayload MdEsb None) = NoneR
  /\ from_packet_any codec_id CUniPdu kw_default {| p_top := LUniPayload; p_sub := LRaw; p_bytes := []; p_md := None |} = NoneR
  /\ from_packet_any codec_id CPhyPkt1 kw_default (pkt_with LPhy MdPhy None) = NoneR
  /\ phy_rx2_to false {| pr_frequency := 1; pr_packet := []; pr_rssi := None; pr_timestamp := None; pr_iq := [];
                         pr_deviation := 0; pr_datarate := 0; pr_endian := 5; pr_modulation := 0; pr_syncword := [] |} = NoneR.
Proof. repeat split; vm_compute; reflexivity. Qed.

(** Unifying raw PDU with preamble 0x55: the first byte comes back as 0xAA *)
Lemma uni_raw_preamble_refuted :
  wf_esb_rx codec_id LUniHdr uni_55 = true
  /\ bind (esb_raw_to codec_id true uni_55) (esb_rx_from true)
     = Ok {| er_channel := 5; er_pdu := [170%N; 17%N; 2%N]; er_rssi := None; er_timestamp := None; er_valid := None; er_address := None |}.
Proof. split; vm_compute; reflexivity. Qed.
Lemma uni_send_raw_preamble_refuted :
  exists p q s, hub_convert p = Ok (SUni s) /\ send_to_packet codec_id (SUni s) = Ok q
                /\ p_bytes p = [85%N; 17%N; 2%N] /\ p_bytes q = [170%N; 17%N; 2%N].
Proof.
  exists {| p_top := LUniHdr; p_sub := LRaw; p_bytes := [85%N; 17%N; 2%N];
            p_md := Some (md_esb true (Some true) None 5 None None None None None) |}.
  eexists. eexists. repeat split; vm_compute; reflexivity.
Qed.

(** PHY raw send: the message carries no packet byte and cannot be turned back into a packet *)
Lemma phy_send_raw_refuted :
  let p := {| p_top := LPhy; p_sub := LRaw; p_bytes := [1%N; 2%N];
              p_md := Some (md_phy true 2402000000 None None None None None None None) |} in
  hub_convert p = Ok (SPhy (PSendRaw {| psr_iq := [] |}))
  /\ send_to_packet codec_id (SPhy (PSendRaw {| psr_iq := [] |})) = Raise AttributeError.
Proof. split; vm_compute; reflexivity. Qed.

(** ** Non-vacuity *)
Lemma nonvacuous :
  wf_ble_raw codec_btle sample_ble_raw = true
  /\ (exists p, ble_raw_to codec_btle sample_ble_raw = Ok p /\ wfp_ble_raw codec_btle p = true
                /\ p_bytes p = [68; 51; 34; 17; 2; 7; 3; 0; 4; 0; 10; 1; 0; 171; 205; 239]%N)
  /\ bind (ble_raw_to codec_btle sample_ble_raw) ble_raw_from = Ok sample_ble_raw.
Proof.
  split; [vm_compute; reflexivity|]. split; [|vm_compute; reflexivity].
  eexists. split; [vm_compute; reflexivity|]. split; vm_compute; reflexivity.
Qed.

(** ** Sequences: the i-th kept result depends on the i-th input only *)
Lemma seq_independent codec k kw :
  (forall ms i m, nth_error ms i = Some m -> nth_error (seq_to codec k ms) i = Some (to_packet_any codec k m))
  /\ (forall ps i p, nth_error ps i = Some p -> nth_error (seq_from codec k kw ps) i = Some (from_packet_any codec k kw p))
  /\ (forall ps i p, nth_error ps i = Some p -> nth_error (seq_convert ps) i = Some (hub_convert p)).
Proof. repeat split; intros; unfold seq_to, seq_from, seq_convert; apply map_nth_error; assumption. Qed.
