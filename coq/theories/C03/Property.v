(** C03 — property theorems only (each closed by [exact]); see Proofs.v.
    Every theorem quantifies over the scapy codec (no hypothesis on it): [canon codec k b] /
    [wf_pdu] mean "scapy rebuilds exactly the bytes [b] it dissected as layer [k]". *)
From Coq Require Import List NArith ZArith Bool.
From Whad Require Import Lib.Bytes C03.Model C03.Proofs.
Import ListNotations.
Open Scope Z_scope.

(** * Received-packet notifications: message -> packet -> message is the identity, field by field *)
Theorem C03_ble_adv_from_to : forall codec m,
  wf_ble_adv codec m = true -> bind (ble_adv_to codec m) (ble_adv_from codec) = Ok m.
Proof. exact ble_adv_from_to. Qed.
Theorem C03_ble_pdu_from_to : forall codec m,
  wf_ble_pdu codec m = true -> bind (ble_pdu_to codec m) ble_pdu_from = Ok m.
Proof. exact ble_pdu_from_to. Qed.
Theorem C03_ble_raw_from_to : forall codec m,
  wf_ble_raw codec m = true -> bind (ble_raw_to codec m) ble_raw_from = Ok m.
Proof. exact ble_raw_from_to. Qed.
Theorem C03_d15_pdu_from_to : forall codec m,
  wf_d15_pdu codec m = true -> bind (d15_pdu_to codec m) d15_pdu_from = Ok m.
Proof. exact d15_pdu_from_to. Qed.
Theorem C03_d15_raw_from_to : forall codec m,
  wf_d15_raw codec m = true -> bind (d15_raw_to codec m) d15_raw_from = Ok m.
Proof. exact d15_raw_from_to. Qed.
(** ESB ([uni = false]) and Logitech Unifying ([uni = true]) PduReceived *)
Theorem C03_esb_pdu_from_to : forall codec uni m,
  wf_esb_rx codec (esb_payload uni) m = true -> bind (esb_pdu_to codec uni m) (esb_rx_from false) = Ok m.
Proof. exact esb_pdu_from_to. Qed.
(** RawPduReceived: for Unifying only when the preamble byte is 0xAA (known finding) *)
Theorem C03_esb_raw_from_to_partial : forall codec uni m,
  wf_esb_rx codec (esb_hdr uni) m = true -> (if uni then preamble_aa (er_pdu m) else true) = true ->
  bind (esb_raw_to codec uni m) (esb_rx_from uni) = Ok m.
Proof. exact esb_raw_from_to. Qed.
(** PHY PacketReceived / RawPacketReceived, protocol version 1 and 2 ([raw] selects the raw class) *)
Theorem C03_phy_v1_from_to : forall raw m,
  wf_phy_rx1 m = true -> bind (phy_rx1_to raw m) phy_rx1_from = Ok m.
Proof. exact phy_rx1_from_to. Qed.
Theorem C03_phy_v2_from_to : forall raw m,
  wf_phy_rx2 m = true -> bind (phy_rx2_to raw m) phy_rx2_from = Ok m.
Proof. exact phy_rx2_from_to. Qed.

(** * Received-packet notifications: packet -> message -> packet is the identity
      (bytes, top layer and the complete metadata object) *)
Theorem C03_ble_adv_to_from : forall codec p,
  wfp_ble_adv codec p = true -> bind (ble_adv_from codec p) (ble_adv_to codec) = Ok p.
Proof. exact ble_adv_to_from. Qed.
Theorem C03_ble_pdu_to_from : forall codec p,
  wfp_ble_pdu codec p = true -> bind (ble_pdu_from p) (ble_pdu_to codec) = Ok p.
Proof. exact ble_pdu_to_from. Qed.
Theorem C03_ble_raw_to_from : forall codec p,
  wfp_ble_raw codec p = true -> bind (ble_raw_from p) (ble_raw_to codec) = Ok p.
Proof. exact ble_raw_to_from. Qed.
Theorem C03_d15_pdu_to_from : forall codec p,
  wfp_d15_pdu codec p = true -> bind (d15_pdu_from p) (d15_pdu_to codec) = Ok p.
Proof. exact d15_pdu_to_from. Qed.
Theorem C03_d15_raw_to_from : forall codec p,
  wfp_d15_raw codec p = true -> bind (d15_raw_from p) (d15_raw_to codec) = Ok p.
Proof. exact d15_raw_to_from. Qed.
Theorem C03_esb_pdu_to_from : forall codec uni p,
  wfp_esb_pdu codec uni p = true -> bind (esb_rx_from false p) (esb_pdu_to codec uni) = Ok p.
Proof. exact esb_pdu_to_from. Qed.
Theorem C03_esb_raw_to_from_partial : forall codec uni p,
  wfp_esb_raw codec uni p = true -> (if uni then preamble_aa (p_bytes p) else true) = true ->
  bind (esb_rx_from uni p) (esb_raw_to codec uni) = Ok p.
Proof. exact esb_raw_to_from. Qed.
Theorem C03_phy_v1_to_from : forall raw p,
  wfp_phy false raw p = true -> bind (phy_rx1_from p) (phy_rx1_to raw) = Ok p.
Proof. exact phy_rx1_to_from. Qed.
Theorem C03_phy_v2_to_from : forall raw p,
  wfp_phy true raw p = true -> bind (phy_rx2_from p) (phy_rx2_to raw) = Ok p.
Proof. exact phy_rx2_to_from. Qed.

(** * convert_packet: for a packet a connector sends, the hub builds a send message (raw or not by
      metadata.raw) and that message turns back into a packet with the same top layer, the same bytes
      and the same sending options (raw flag, channel, direction, connection handle, encrypt,
      retransmission count) *)
Theorem C03_convert_packet_send_ble : forall codec p, sendable_ble codec p = true ->
  exists s q, hub_convert p = Ok (SBle s) /\ send_to_packet codec (SBle s) = Ok q /\ send_same p q = true.
Proof. exact ble_convert_send. Qed.
Theorem C03_convert_packet_send_d15 : forall codec p, sendable_d15 codec p = true ->
  exists s q, hub_convert p = Ok (SD15 s) /\ send_to_packet codec (SD15 s) = Ok q /\ send_same p q = true.
Proof. exact d15_convert_send. Qed.
(** ESB / Unifying; a raw Unifying packet only with preamble 0xAA (inside [sendable_esb], known finding) *)
Theorem C03_convert_packet_send_esb_partial : forall codec uni p, sendable_esb codec uni p = true ->
  exists s q, hub_convert p = Ok ((if uni then SUni else SEsb) s)
              /\ send_to_packet codec ((if uni then SUni else SEsb) s) = Ok q /\ send_same p q = true.
Proof. exact esb_convert_send. Qed.
(** PHY, non-raw packets only (known finding for raw ones); the send message has no option *)
Theorem C03_convert_packet_send_phy_partial : forall codec p, sendable_phy p = true ->
  exists s q, hub_convert p = Ok (SPhy s) /\ send_to_packet codec (SPhy s) = Ok q
              /\ p_top q = p_top p /\ p_bytes q = p_bytes p.
Proof. exact phy_convert_send. Qed.

(** * A conversion that cannot represent its input returns None *)
Theorem C03_unrepresentable_none_adv_type : forall codec m,
  adv_layer_of_type (ba_type m) = None -> ble_adv_to codec m = NoneR.
Proof. exact ble_adv_to_unknown. Qed.
Theorem C03_unrepresentable_none_adv_address : forall codec m,
  length (ba_addr m) <> 6%nat -> ble_adv_to codec m = NoneR.
Proof. exact ble_adv_to_bad_addr. Qed.
(** a packet without the layer the message kind needs; a packet whose metadata is of no known domain *)
Theorem C03_unrepresentable_none_layer :
  (forall p, has_btle p = false -> ble_raw_from p = NoneR)
  /\ (forall p, has_data p = false -> ble_pdu_from p = NoneR)
  /\ (forall codec p, has_adv p = false -> ble_adv_from codec p = NoneR)
  /\ (forall e p, has_btle p = false -> ble_send_raw_from e p = NoneR)
  /\ (forall e p, has_data p = false -> has_ctrl p = false -> has_adv p = false -> ble_send_from e p = NoneR)
  /\ (forall p, has_d15 p = false -> d15_pdu_from p = NoneR)
  /\ (forall p, layer_eqb (p_top p) LDot15d4FCS || layer_eqb (p_top p) LDot15d4Raw = false -> d15_raw_from p = NoneR)
  /\ (forall ch p, has_d15 p || layer_eqb (p_top p) LDot15d4Raw = false -> d15_send_from ch p = NoneR)
  /\ (forall ch p, has_d15 p || layer_eqb (p_top p) LDot15d4Raw = false -> d15_send_raw_from ch p = NoneR)
  /\ (forall p md, p_md p = Some md -> md_cls md = MdOther -> hub_convert p = NoneR).
Proof. exact from_without_layer. Qed.
(** a packet without any metadata (every class that reads it), and hub.convert_packet of such a packet *)
Theorem C03_unrepresentable_none_no_metadata : forall codec c kw p,
  p_md p = None -> match c with CPhySend | CPhySendRaw | CD15Send | CD15SendRaw => false | _ => true end = true ->
  from_packet_any codec c kw p = NoneR.
Proof. exact from_without_metadata. Qed.
Theorem C03_unrepresentable_none_no_metadata_hub : forall p, p_md p = None -> hub_convert p = NoneR.
Proof. exact hub_convert_without_metadata. Qed.
(** the channel (802.15.4, ESB, Unifying) or the frequency (PHY) is None in the metadata *)
Theorem C03_unrepresentable_none_channel :
  (forall p md, p_md p = Some md -> md_channel md = None -> d15_pdu_from p = NoneR /\ d15_raw_from p = NoneR)
  /\ (forall f p md, p_md p = Some md -> md_channel md = None -> esb_rx_from f p = NoneR)
  /\ (forall r p md, p_md p = Some md -> md_channel md = None -> esb_tx_from r p = NoneR)
  /\ (forall p md, p_md p = Some md -> md_frequency md = None -> phy_rx1_from p = NoneR /\ phy_rx2_from p = NoneR)
  /\ (forall p md, p_md p = Some md -> md_cls md = MdD15 -> md_channel md = None -> hub_convert p = NoneR).
Proof. exact from_without_channel. Qed.
(** a PDU scapy cannot dissect (struct.error); a raw 802.15.4 frame is kept as Dot15d4Raw instead *)
Theorem C03_unrepresentable_none_undissectable : forall codec,
  (forall m, codec LBtleData (bs_pdu m) = CStruct -> ble_send_to codec m = NoneR)
  /\ (forall m, codec LBtleData (bp_pdu m) = CStruct -> ble_pdu_to codec m = NoneR)
  /\ (forall m, codec LBtle (le32z (br_aa m) ++ br_pdu m ++ be24z (br_crc m)) = CStruct -> ble_raw_to codec m = NoneR)
  /\ (forall m, codec LDot15d4 (ds_pdu m) = CStruct -> d15_send_to codec m = NoneR)
  /\ (forall m, codec LDot15d4 (dp_pdu m) = CStruct -> d15_pdu_to codec m = NoneR)
  /\ (forall m, codec LDot15d4FCS (dsr_pdu m ++ le16z (dsr_fcs m)) = CStruct -> d15_send_raw_to codec m = NoneR)
  /\ (forall uni m, codec (esb_payload uni) (et_pdu m) = CStruct -> esb_send_to codec uni m = NoneR)
  /\ (forall uni m, codec (esb_hdr uni) (et_pdu m) = CStruct -> esb_send_raw_to codec uni m = NoneR)
  /\ (forall uni m, codec (esb_payload uni) (er_pdu m) = CStruct -> esb_pdu_to codec uni m = NoneR)
  /\ (forall uni m, codec (esb_hdr uni) (er_pdu m) = CStruct -> esb_raw_to codec uni m = NoneR)
  /\ (forall m, in_u16 (dr_fcs m) = true -> codec LDot15d4FCS (dr_pdu m ++ le16z (dr_fcs m)) = CStruct ->
        exists p, d15_raw_to codec m = Ok p /\ p_top p = LDot15d4Raw /\ p_bytes p = dr_pdu m ++ le16z (dr_fcs m)).
Proof. exact to_packet_undissectable. Qed.
(** integers struct.pack rejects, PHY endian / modulation values outside their enum *)
Theorem C03_unrepresentable_none_out_of_range : forall codec,
  (forall m, in_u32 (br_aa m) && in_u32 (br_crc m) = false -> ble_raw_to codec m = NoneR)
  /\ (forall m, in_u16 (dsr_fcs m) = false -> d15_send_raw_to codec m = NoneR)
  /\ (forall m, in_u16 (dr_fcs m) = false -> d15_raw_to codec m = NoneR)
  /\ (forall raw m, (0 <=? pr_endian m) && (pr_endian m <=? 1) && ((0 <=? pr_modulation m) && (pr_modulation m <=? 7)) = false ->
        phy_rx2_to raw m = NoneR).
Proof. exact to_packet_out_of_range. Qed.

(** * ... and never raises: from_packet of every class, for EVERY packet, extra argument and codec;
      hub.convert_packet for every packet *)
Theorem C03_from_packet_never_raises : forall codec c kw p, raises (from_packet_any codec c kw p) = false.
Proof. exact from_packet_never_raises. Qed.
Theorem C03_convert_packet_never_raises : forall p, raises (hub_convert p) = false.
Proof. exact hub_convert_never_raises. Qed.
(** the inputs that used to raise (None channel / direction / frequency, no metadata, endian = 5) give None *)
Theorem C03_metadata_none_regression :
  from_packet_any codec_id CBlePdu kw_default (pkt_with LBtleData MdBle None) = NoneR
  /\ from_packet_any codec_id CD15Pdu kw_default (pkt_with LDot15d4 MdD15 None) = NoneR
  /\ hub_convert (pkt_with LDot15d4 MdD15 None) = NoneR
  /\ from_packet_any codec_id CEsbPdu kw_default (pkt_with LEsbPayload MdEsb None) = NoneR
  /\ from_packet_any codec_id CUniPdu kw_default {| p_top := LUniPayload; p_sub := LRaw; p_bytes := []; p_md := None |} = NoneR
  /\ from_packet_any codec_id CPhyPkt1 kw_default (pkt_with LPhy MdPhy None) = NoneR
  /\ phy_rx2_to false {| pr_frequency := 1; pr_packet := []; pr_rssi := None; pr_timestamp := None; pr_iq := [];
                         pr_deviation := 0; pr_datarate := 0; pr_endian := 5; pr_modulation := 0; pr_syncword := [] |} = NoneR.
Proof. exact metadata_none_witnesses. Qed.

(** to_packet: FULL STATEMENT (refuted by SendRawPacket, known finding phy.send_raw-drops-packet-bytes,
    see C03_convert_packet_send_phy_refuted) and the part that holds: every other class, whenever scapy
    raises nothing but what dissect_failsafe catches (struct.error, ValueError) *)
Definition C03_to_packet_never_raises_statement : Prop :=
  forall codec c b, codec_no_exc codec -> well_typed c b = true -> raises (to_packet_any codec c b) = false.
Theorem C03_to_packet_never_raises_partial : forall codec c b,
  codec_no_exc codec -> well_typed c b = true -> match c with CPhySendRaw => false | _ => true end = true ->
  raises (to_packet_any codec c b) = false.
Proof. exact to_packet_total. Qed.

(** FULL STATEMENTS refuted by the two remaining findings *)
Definition C03_uni_raw_from_to_statement : Prop :=
  forall codec m, wf_esb_rx codec LUniHdr m = true -> bind (esb_raw_to codec true m) (esb_rx_from true) = Ok m.
Definition C03_convert_packet_send_phy_statement : Prop :=
  forall codec p md, p_md p = Some md -> md_cls md = MdPhy -> p_top p = LPhy ->
    exists s q, hub_convert p = Ok (SPhy s) /\ send_to_packet codec (SPhy s) = Ok q /\ p_bytes q = p_bytes p.

Theorem C03_uni_raw_from_to_refuted :
  wf_esb_rx codec_id LUniHdr uni_55 = true
  /\ bind (esb_raw_to codec_id true uni_55) (esb_rx_from true)
     = Ok {| er_channel := 5; er_pdu := [170%N; 17%N; 2%N]; er_rssi := None; er_timestamp := None; er_valid := None; er_address := None |}.
Proof. exact uni_raw_preamble_refuted. Qed.
Theorem C03_uni_send_raw_refuted :
  exists p q s, hub_convert p = Ok (SUni s) /\ send_to_packet codec_id (SUni s) = Ok q
                /\ p_bytes p = [85%N; 17%N; 2%N] /\ p_bytes q = [170%N; 17%N; 2%N].
Proof. exact uni_send_raw_preamble_refuted. Qed.

Theorem C03_convert_packet_send_phy_refuted :
  let p := {| p_top := LPhy; p_sub := LRaw; p_bytes := [1%N; 2%N];
              p_md := Some (md_phy true 2402000000 None None None None None None None) |} in
  hub_convert p = Ok (SPhy (PSendRaw {| psr_iq := [] |}))
  /\ send_to_packet codec_id (SPhy (PSendRaw {| psr_iq := [] |})) = Raise AttributeError.
Proof. exact phy_send_raw_refuted. Qed.

(** * Sequences of conversions: whatever else is converted before or after, the i-th result is the
      conversion of the i-th input (conversions are functions of their own input; the implementation's
      kept and re-read results are compared with [seq_to] / [seq_from] / [seq_convert] on every run) *)
Theorem C03_sequence_independent : forall codec k kw,
  (forall ms i m, nth_error ms i = Some m -> nth_error (seq_to codec k ms) i = Some (to_packet_any codec k m))
  /\ (forall ps i p, nth_error ps i = Some p -> nth_error (seq_from codec k kw ps) i = Some (from_packet_any codec k kw p))
  /\ (forall ps i p, nth_error ps i = Some p -> nth_error (seq_convert ps) i = Some (hub_convert p)).
Proof. exact seq_independent. Qed.

(** * Non-vacuity: the premises are met by a concrete BLE raw notification (all optional items present,
      RSSI -40, timestamp 2^32-1, relative timestamp 2^63) whose packet is well-formed too *)
Example C03_nonvacuous :
  wf_ble_raw codec_btle sample_ble_raw = true
  /\ (exists p, ble_raw_to codec_btle sample_ble_raw = Ok p /\ wfp_ble_raw codec_btle p = true
                /\ p_bytes p = [68; 51; 34; 17; 2; 7; 3; 0; 4; 0; 10; 1; 0; 171; 205; 239]%N)
  /\ bind (ble_raw_to codec_btle sample_ble_raw) ble_raw_from = Ok sample_ble_raw.
Proof. exact nonvacuous. Qed.
