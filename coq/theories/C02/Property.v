(** C02 -- property theorems only (each closed by [exact]); see Proofs.v.
    Every theorem holds for ANY schema passing the finite check [wf_schema]; the check
    harness/props/C02.py proves [wf_schema schema = true] for the schema regenerated from the
    sources on every run (build/.../C02Obligations.v) and instantiates the theorems at it. *)
From Coq Require Import List NArith ZArith Arith Bool String.
From Whad Require Import C02.Model C02.Proofs.
Import ListNotations.
Open Scope string_scope.
Open Scope list_scope.

(** A message built from any registered wrapper class at any version v >= 1, with any keyword
    values (all integers in range, arbitrary bytes, repeated fields of any length, any subset of
    the declared fields, undeclared keywords ignored), survives the wire round trip: the hub of
    the same version parses it back to the same class, every field given reads back as given,
    every field not given reads back as None (optional) or the protobuf default. *)
Theorem C02_roundtrip : forall S, wf_schema S = true ->
  forall (v : nat) (reg name cid : string) attrs sel (kw : list (string * value)) (m : pb),
    1 <= v -> bound S reg name v = Some cid -> find_class S cid = Some (CWrap attrs sel) ->
    NoDup (map fst kw) -> create S cid kw = Ok m ->
    hub_parse S v (Decoded (canon S m)) = Msg cid
    /\ forall a, In a attrs -> get_attr S a (canon S m) = expected S a kw.
Proof. exact roundtrip. Qed.

(** Keyword values within the range of the protobuf field they are bound to are accepted. *)
Theorem C02_create_accepts_admissible : forall S, wf_schema S = true ->
  forall cid attrs sel kw, find_class S cid = Some (CWrap attrs sel) -> admissible S attrs kw ->
  exists m, create S cid kw = Ok m.
Proof. exact create_ok. Qed.

(** The same for the fixed-content messages (command results). *)
Theorem C02_roundtrip_fixed : forall S, wf_schema S = true ->
  forall (v : nat) (reg name cid : string) content,
    1 <= v -> bound S reg name v = Some cid -> find_class S cid = Some (CFixed content) ->
    create S cid [] = Ok content /\ hub_parse S v (Decoded (canon S content)) = Msg cid.
Proof. exact roundtrip_fixed. Qed.

(** With google.protobuf's codec as a parameter satisfying parse (serialize m) = canon m. *)
Theorem C02_roundtrip_wire : forall S, wf_schema S = true ->
  forall (serialize : pb -> list N) (parse_bytes : list N -> decoded),
    (forall m, parse_bytes (serialize m) = Decoded (canon S m)) ->
    forall (v : nat) (reg name cid : string) attrs sel (kw : list (string * value)),
      1 <= v -> bound S reg name v = Some cid -> find_class S cid = Some (CWrap attrs sel) ->
      NoDup (map fst kw) -> admissible S attrs kw ->
      exists m m', create S cid kw = Ok m /\ parse_bytes (serialize m) = Decoded m'
                   /\ hub_parse S v (Decoded m') = Msg cid
                   /\ forall a, In a attrs -> get_attr S a m' = expected S a kw.
Proof. exact roundtrip_wire. Qed.

(** Every translated factory, at every version v >= 1 and for all arguments: the message it
    returns parses back to the same kind; every keyword / assignment that runs reads back as the
    value of its expression over the arguments; untouched fields (including a repeated field whose
    append loop had nothing to iterate over) are reported unset, i.e. None / default / []; every
    argument that is given is carried by an op whose guard holds. *)
Theorem C02_factory_carries_args : forall S, wf_schema S = true ->
  forall (f : factory) (v : nat) (ar : args) (cid : string) (m : pb),
    In f (s_factories S) -> 1 <= v -> run_factory S f v ar = Ok (cid, m) ->
    hub_parse S v (Decoded (canon S m)) = Msg cid
    /\ (forall o at_, In o (fa_ops f) -> runs o ar = true ->
          find_attr (attrs_of S cid) (op_attr o) = Some at_ ->
          exists val, eval (op_expr o) ar = Some val
                      /\ get_attr S at_ (canon S m) = expected S at_ [(a_name at_, val)])
    /\ (forall at_, In at_ (attrs_of S cid) ->
          (forall o, In o (fa_ops f) -> runs o ar = true -> op_attr o <> a_name at_) ->
          get_attr S at_ (canon S m) = unset_value S at_)
    /\ (forall p, In p (fa_params f) -> given ar (fst p) ->
          exists o, In o (fa_ops f) /\ effective o ar = true /\ expr_param (op_expr o) = Some (fst p)).
Proof. exact factory_carries_args. Qed.

(** ... and the factory does build a message whenever the carried values fit their fields. *)
Theorem C02_factory_total : forall S, wf_schema S = true ->
  forall (f : factory) (v : nat) (ar : args) (kw : list (string * value)),
    In f (s_factories S) -> 1 <= v -> kw_of (fa_ops f) ar = Some kw ->
    (forall cid attrs sel, bound S (fa_reg f) (fa_target f) v = Some cid ->
       find_class S cid = Some (CWrap attrs sel) -> admissible S attrs kw) ->
    exists cid m, run_factory S f v ar = Ok (cid, m).
Proof. exact factory_total. Qed.

(** Parsing never raises: whatever protobuf decoded (or failed to decode), at any version,
    ProtocolHub.parse returns a message or None. *)
Theorem C02_parse_total : forall S, wf_schema S = true ->
  forall (v : nat) (d : decoded), is_msg_or_none (hub_parse S v d).
Proof. exact parse_total. Qed.

(** ... hence for every byte string, whatever total decoder stands for Message.ParseFromString. *)
Theorem C02_parse_total_wire : forall S, wf_schema S = true ->
  forall (parse_bytes : list N -> decoded) (v : nat) (b : list N),
    is_msg_or_none (hub_parse S v (parse_bytes b)).
Proof. exact parse_total_wire. Qed.

(** Registry.bound: version fallback N -> N-1 -> ... (any schema). *)
Theorem C02_version_fallback : forall S reg name v0 c,
  1 <= v0 -> reg_lookup S reg name v0 = Some c ->
  forall v, v0 <= v -> (forall v1, v0 < v1 <= v -> reg_lookup S reg name v1 = None) ->
  bound S reg name v = Some c.
Proof. exact bound_fallback. Qed.

Theorem C02_version_fallback_inv : forall S reg name v c,
  bound S reg name v = Some c ->
  exists v0, v0 <= v /\ reg_lookup S reg name v0 = Some c
             /\ forall v1, v0 < v1 <= v -> reg_lookup S reg name v1 = None.
Proof. exact bound_spec. Qed.

(** Field-level facts of the abstract message (any schema, any message): get after set,
    set does not disturb a field it does not clear, members of a oneof exclude each other,
    setting a field makes the chain of sub-messages above it present. *)
Theorem C02_get_after_set : forall S p v m,
  lookup p (vals (set_val S p v m)) = Some (merge v (lookup p (vals m))).
Proof. exact lookup_set_same. Qed.

Theorem C02_set_preserves_others : forall S p q v m,
  q <> p -> cleared S p q = false -> lookup q (vals (set_val S p v m)) = lookup q (vals m).
Proof. exact lookup_set_other. Qed.

Theorem C02_oneof_exclusion : forall S p v m q,
  cleared S p q = true -> ~ In q (prefixes p) -> q <> p -> present (set_val S p v m) q = false.
Proof. exact set_val_excludes. Qed.

Theorem C02_set_makes_chain_present : forall S p v m q,
  In q (prefixes p) -> In q (pres (set_val S p v m)).
Proof. exact set_val_chain_present. Qed.

(** Non-vacuity: a concrete schema passes wf_schema; at version 3 (above the last registered
    one: fallback to the version-2 class) a message with a field at its default, an unset
    optional field and a repeated field round-trips; a factory call with its optional argument
    absent builds a message; a malformed message parses to None. *)
Example C02_nonvacuous :
  wf_schema mini_schema = true
  /\ bound mini_schema "Dom" "one" 3 = Some "A2"
  /\ roundtrip_b mini_schema 3 "Dom" "one" [("x", VS (SInt 0)); ("l", VL [SBytes [1%N]; SBytes []])] = true
  /\ (exists m, run_factory mini_schema (mkFa "dom" "create_one" [("x", false); ("y", true)] "Dom" "one"
                   [FSet "x" (EProj "x" "") None; FSet "y" (EProj "y" "") (Some "y")]) 1
                   [("x", Some [("", VS (SInt 7))]); ("y", None)] = Ok ("A1", m))
  /\ hub_parse mini_schema 2 (Decoded (mkPb [] [["dom"]])) = NoMsg.
Proof. repeat split; try (vm_compute; reflexivity). eexists. vm_compute. reflexivity. Qed.
