(** C02 -- executable model of the whad protocol hub: abstract protobuf messages
    (finite map path -> value with proto3 presence and oneof semantics),
    [HubMessage.set_field_value]/[get_field_value], [PbMessageWrapper.__init__],
    [Registry.bound], the per-domain [parse] dispatchers, [ProtocolHub.parse] and the
    [create_*] factories.  Everything is parameterised by a [schema] which the translator
    harness/translators/C02_schema.py regenerates from the sources on every run
    (C02Schema.v).  No proofs in this file. *)
From Coq Require Import List NArith ZArith Arith Bool String.
Import ListNotations.
Open Scope string_scope.
Open Scope list_scope.

(** * Schema *)

Definition path := list string.

Inductive skind := KU32 | KU64 | KS32 | KS64 | KBool | KBytes | KEnum | KUnsupported.
Inductive ftype := TS (k : skind) | TM (m : string).
Record fdesc := mkF { f_name : string; f_num : N; f_ty : ftype; f_pres : bool; f_rep : bool;
                      f_oneof : option string }.
Record mdesc := mkM { m_name : string; m_fields : list fdesc }.

Inductive sval := SInt (z : Z) | SBool (b : bool) | SBytes (l : list N).
Definition record := list (string * sval).
Inductive value := VS (s : sval) | VL (l : list sval) | VR (l : list record).

(** Abstract protobuf message: values of the leaf fields that are set, and the set of
    sub-messages that are present. *)
Record pb := mkPb { vals : list (path * value); pres : list path }.
Definition pb_empty : pb := mkPb [] [].

Inductive pbkind := PInt | PBytes | PBool | PArray | PMsg | POther.
Record attr := mkA { a_name : string; a_path : path; a_kind : pbkind; a_opt : bool }.

Inductive ckind :=
| CWrap (attrs : list attr) (selects : list path)
    (* PbMessageWrapper subclass: declared PbFields; sub-messages present after cls() *)
| CFixed (content : pb)
    (* non-wrapper HubMessage whose serialisation is a fixed content (CommandResult family) *)
| CDomain (p : path) (g : string) (reg : string)
    (* t = message.<p>.WhichOneof(g); reg.bound(t, version).parse(version, message) *)
| COneofSwitch (p : path) (g : string) (cases : list (string * string))
    (* t = message.<p>.WhichOneof(g); if t == m_i: return C_i.parse(version, message) ... else None *)
| CValueSwitch (p : path) (cases : list (Z * (string * string)))
    (* if message.<p> == z_i: return reg_i.bound(name_i, version)(message=message) ... (else None) *)
| COpaque (why : string).

Record regent := mkR { r_reg : string; r_name : string; r_ver : nat; r_cls : string }.

Inductive expr :=
| EConst (v : value)
| EProj (p key : string)                  (* projection [key] of argument [p] *)
| EProjDef (p key : string) (d : value)   (* the same, [d] when the argument is None *)
| ECond (p key : string) (c1 c2 : value)  (* c1 if <projection is true> else c2 *)
| EConv (op p key : string) (d : option value).
    (* conversion done by a helper class of the code (ChannelMap, BDAddress, bytes()) applied to the RAW
       argument data under [key]; [d] when the argument is None.  The operators have their own
       semantics below, independent of the helper, and are compared with it on every run. *)
Inductive fop :=
| FSet (a : string) (e : expr) (guard : option string)     (* [if guard is not None:] m.a = e   /  kwarg a=e *)
| FAppend (a : string) (e : expr) (guard : option string). (* [if guard is not None:] for x in e: m.a.append(x) / .add() *)
Record factory := mkFa { fa_dom : string; fa_name : string; fa_params : list (string * bool);
                         fa_reg : string; fa_target : string; fa_ops : list fop }.

Record schema := mkS {
  s_desc : list mdesc; s_root : string; s_classes : list (string * ckind); s_regs : list regent;
  s_hub : string; s_last : nat; s_factories : list factory;
  s_decode_caught : bool;      (* ProtocolHub.parse: DecodeError -> None *)
  s_none_guard : bool;         (* ProtocolHub.parse: WhichOneof('msg') is None -> None *)
  s_unsupported_caught : bool  (* ProtocolHub.parse: UnsupportedVersionException -> None *) }.

(** * Generic helpers *)

Fixpoint path_eqb (a b : path) : bool :=
  match a, b with
  | [], [] => true
  | x :: a', y :: b' => String.eqb x y && path_eqb a' b'
  | _, _ => false
  end.

Fixpoint is_prefix (a b : path) : bool :=   (* a is a prefix of b (or equal) *)
  match a, b with
  | [], _ => true
  | x :: a', y :: b' => String.eqb x y && is_prefix a' b'
  | _ :: _, [] => false
  end.

Definition mem_path (p : path) (l : list path) : bool := existsb (path_eqb p) l.

Fixpoint lookup {A} (p : path) (l : list (path * A)) : option A :=
  match l with
  | [] => None
  | (k, v) :: r => if path_eqb k p then Some v else lookup p r
  end.

Fixpoint assoc {A} (k : string) (l : list (string * A)) : option A :=
  match l with
  | [] => None
  | (k', v) :: r => if String.eqb k' k then Some v else assoc k r
  end.

Fixpoint assocZ {A} (k : Z) (l : list (Z * A)) : option A :=
  match l with
  | [] => None
  | (k', v) :: r => if Z.eqb k' k then Some v else assocZ k r
  end.

(** proper non-empty prefixes of a path: [a;b;c] -> [[a];[a;b]] *)
Fixpoint prefixes_from (pre p : path) : list path :=
  match p with
  | [] => []
  | [_] => []
  | x :: r => (pre ++ [x]) :: prefixes_from (pre ++ [x]) r
  end.
Definition prefixes (p : path) : list path := prefixes_from [] p.

(** * Descriptor walking *)

Definition find_msg (D : list mdesc) (mn : string) : option mdesc :=
  find (fun m => String.eqb (m_name m) mn) D.
Definition find_field (D : list mdesc) (mn f : string) : option fdesc :=
  match find_msg D mn with
  | Some m => find (fun fd => String.eqb (f_name fd) f) (m_fields m)
  | None => None
  end.
Definition oneof_members (D : list mdesc) (mn g : string) : list string :=
  match find_msg D mn with
  | Some m => map f_name (filter (fun fd => match f_oneof fd with Some g' => String.eqb g' g | None => false end) (m_fields m))
  | None => []
  end.

(** field descriptor at the end of path [p] starting in message type [mn]; intermediate
    nodes must be non-repeated message fields *)
Fixpoint resolve (D : list mdesc) (mn : string) (p : path) : option fdesc :=
  match p with
  | [] => None
  | [f] => find_field D mn f
  | f :: r => match find_field D mn f with
              | Some fd => match f_ty fd, f_rep fd with
                           | TM mn', false => resolve D mn' r
                           | _, _ => None
                           end
              | None => None
              end
  end.

(** message type reached by path [p] ([] = the root) *)
Definition msg_at (D : list mdesc) (root : string) (p : path) : option string :=
  match p with
  | [] => Some root
  | _ => match resolve D root p with
         | Some fd => match f_ty fd, f_rep fd with TM mn, false => Some mn | _, _ => None end
         | None => None
         end
  end.

(** sibling paths cleared when [p] is set: for every node of [p] that is a oneof member,
    the other members of that oneof *)
Fixpoint sibs (D : list mdesc) (mn : string) (pre p : path) : list path :=
  match p with
  | [] => []
  | f :: rest =>
    match find_field D mn f with
    | None => []
    | Some fd =>
      let here := match f_oneof fd with
                  | None => []
                  | Some g => map (fun s => pre ++ [s]) (filter (fun n => negb (String.eqb n f)) (oneof_members D mn g))
                  end in
      here ++ match f_ty fd with TM mn' => sibs D mn' (pre ++ [f]) rest | TS _ => [] end
    end
  end.

Definition cleared (S : schema) (p k : path) : bool :=
  existsb (fun s => is_prefix s k) (sibs (s_desc S) (s_root S) [] p).

(** * Values *)

Definition sval_eqb (a b : sval) : bool :=
  match a, b with
  | SInt x, SInt y => Z.eqb x y
  | SBool x, SBool y => Bool.eqb x y
  | SBytes x, SBytes y => (fix eq (a b : list N) := match a, b with
                             | [], [] => true | x :: a', y :: b' => N.eqb x y && eq a' b' | _, _ => false end) x y
  | _, _ => false
  end.
Fixpoint list_eqb {A} (e : A -> A -> bool) (a b : list A) : bool :=
  match a, b with
  | [], [] => true
  | x :: a', y :: b' => e x y && list_eqb e a' b'
  | _, _ => false
  end.
Definition record_eqb (a b : record) : bool :=
  list_eqb (fun x y => String.eqb (fst x) (fst y) && sval_eqb (snd x) (snd y)) a b.
Definition value_eqb (a b : value) : bool :=
  match a, b with
  | VS x, VS y => sval_eqb x y
  | VL x, VL y => list_eqb sval_eqb x y
  | VR x, VR y => list_eqb record_eqb x y
  | _, _ => false
  end.

Definition two (n : Z) : Z := Z.pow 2 n.
Definition sfits (k : skind) (s : sval) : bool :=
  match k, s with
  | KU32, SInt z => Z.leb 0 z && Z.ltb z (two 32)
  | KU64, SInt z => Z.leb 0 z && Z.ltb z (two 64)
  | KS32, SInt z => Z.leb (- two 31) z && Z.ltb z (two 31)
  | KEnum, SInt z => Z.leb (- two 31) z && Z.ltb z (two 31)
  | KS64, SInt z => Z.leb (- two 63) z && Z.ltb z (two 63)
  | KBool, SBool _ => true
  | KBytes, SBytes l => forallb (fun b => N.ltb b 256) l
  | _, _ => false
  end.
Definition sdefault (k : skind) : sval :=
  match k with KBool => SBool false | KBytes => SBytes [] | _ => SInt 0 end.

Definition scalar_fields (D : list mdesc) (mn : string) : list (string * skind) :=
  match find_msg D mn with
  | Some m => flat_map (fun fd => match f_ty fd, f_rep fd with TS k, false => [(f_name fd, k)] | _, _ => [] end) (m_fields m)
  | None => []
  end.
(** a record of a repeated message field, all scalar fields listed, defaults filled in *)
Definition norm_rec (D : list mdesc) (mn : string) (r : record) : record :=
  map (fun fk => (fst fk, match assoc (fst fk) r with Some s => s | None => sdefault (snd fk) end)) (scalar_fields D mn).
Definition rec_fits (D : list mdesc) (mn : string) (r : record) : bool :=
  forallb (fun e => match assoc (fst e) (scalar_fields D mn) with Some k => sfits k (snd e) | None => false end) r.

Definition fits (D : list mdesc) (fd : fdesc) (v : value) : bool :=
  match f_ty fd, f_rep fd, v with
  | TS k, false, VS s => sfits k s
  | TS k, true, VL l => forallb (sfits k) l
  | TM mn, true, VR l => forallb (rec_fits D mn) l
  | _, _, _ => false
  end.
Definition default_of (fd : fdesc) : value :=
  match f_ty fd, f_rep fd with
  | TS k, false => VS (sdefault k)
  | TS _, true => VL []
  | TM _, _ => VR []
  end.
Definition norm_value (D : list mdesc) (fd : fdesc) (v : value) : value :=
  match f_ty fd, v with
  | TM mn, VR l => VR (map (norm_rec D mn) l)
  | _, _ => v
  end.

(** * Protobuf message operations *)

Definition has_key (p : path) (m : pb) : bool :=
  match lookup p (vals m) with Some _ => true | None => false end.
Definition present (m : pb) (q : path) : bool := mem_path q (pres m) || has_key q m.

(** assignment / extend of a leaf field (HubMessage.set_field_value on a resolvable path) *)
Definition set_val (S : schema) (p : path) (v : value) (m : pb) : pb :=
  let cl := cleared S p in
  let v' := match v, lookup p (vals m) with
            | VL l, Some (VL o) => VL (o ++ l)
            | VR l, Some (VR o) => VR (o ++ l)
            | _, _ => v
            end in
  mkPb ((p, v') :: filter (fun e => negb (path_eqb (fst e) p) && negb (cl (fst e))) (vals m))
       (prefixes p ++ filter (fun k => negb (cl k)) (pres m)).

(** SetInParent / CopyFrom(empty) of a sub-message *)
Definition select (S : schema) (p : path) (m : pb) : pb :=
  let cl := cleared S p in
  mkPb (filter (fun e => negb (cl (fst e))) (vals m))
       (p :: prefixes p ++ filter (fun k => negb (cl k)) (pres m)).

(** WhichOneof(g) of the sub-message at [p]: None = no such oneof (ValueError) *)
Definition which_oneof (S : schema) (m : pb) (p : path) (g : string) : option (option string) :=
  match msg_at (s_desc S) (s_root S) p with
  | None => None
  | Some mn => match oneof_members (s_desc S) mn g with
               | [] => None
               | ms => Some (find (fun n => present m (p ++ [n])) ms)
               end
  end.

(** what SerializeToString followed by ParseFromString keeps: implicit-presence scalars
    at their default and empty repeated fields disappear; sub-message presence stays *)
Definition keep (S : schema) (e : path * value) : bool :=
  match resolve (s_desc S) (s_root S) (fst e) with
  | Some fd => if f_rep fd then negb (value_eqb (snd e) (default_of fd))
               else f_pres fd || negb (value_eqb (snd e) (default_of fd))
  | None => true
  end.
Definition canon (S : schema) (m : pb) : pb := mkPb (filter (keep S) (vals m)) (pres m).

(** * Wrapper classes *)

Inductive res (A : Type) := Ok (a : A) | Raise (e : string).
Arguments Ok {A} a. Arguments Raise {A} e.

Definition find_class (S : schema) (cid : string) : option ckind := assoc cid (s_classes S).
Definition find_attr (attrs : list attr) (a : string) : option attr :=
  find (fun x => String.eqb (a_name x) a) attrs.

(** kwarg / __setattr__ of attribute [a]: a name that is not a declared PbField is ignored *)
Definition set_attr (S : schema) (attrs : list attr) (a : string) (v : value) (m : pb) : res pb :=
  match find_attr attrs a with
  | None => Ok m
  | Some at_ =>
    match resolve (s_desc S) (s_root S) (a_path at_) with
    | None => Raise "IndexError"
    | Some fd => if fits (s_desc S) fd v then Ok (set_val S (a_path at_) v m)
                 else Raise "ValueError"
    end
  end.

Definition init_wrap (S : schema) (selects : list path) : pb :=
  fold_left (fun m p => select S p m) selects pb_empty.

Fixpoint set_all (S : schema) (attrs : list attr) (kw : list (string * value)) (m : pb) : res pb :=
  match kw with
  | [] => Ok m
  | (a, v) :: r => match set_attr S attrs a v m with
                   | Ok m' => set_all S attrs r m'
                   | Raise e => Raise e
                   end
  end.

(** construction of a wrapper with keyword arguments kw; the fixed content for a CFixed class *)
Definition create (S : schema) (cid : string) (kw : list (string * value)) : res pb :=
  match find_class S cid with
  | Some (CWrap attrs sel) => set_all S attrs kw (init_wrap S sel)
  | Some (CFixed c) => match kw with [] => Ok c | _ => Raise "TypeError" end
  | _ => Raise "TypeError"
  end.

Inductive gres := GNone | GVal (v : value) | GRaise (e : string) | GWrapped.

(** HubMessage.get_field_value *)
Definition get_attr (S : schema) (at_ : attr) (m : pb) : gres :=
  match resolve (s_desc S) (s_root S) (a_path at_) with
  | None => GRaise "IndexError"
  | Some fd =>
    match a_kind at_ with
    | PMsg => GWrapped
    | _ =>
      if a_opt at_ && negb (f_pres fd && negb (f_rep fd)) then GRaise "ValueError"
      else if a_opt at_ && negb (has_key (a_path at_) m) then GNone
      else match lookup (a_path at_) (vals m) with
           | Some v => GVal (norm_value (s_desc S) fd v)
           | None => GVal (default_of fd)
           end
    end
  end.

(** * Registry.bound *)

Definition reg_lookup (S : schema) (reg name : string) (v : nat) : option string :=
  match find (fun r => String.eqb (r_reg r) reg && String.eqb (r_name r) name && Nat.eqb (r_ver r) v) (s_regs S) with
  | Some r => Some (r_cls r)
  | None => None
  end.

(** structural recursion on the version, as [Registry.bound] recurses on version-1;
    None = UnsupportedVersionException *)
Fixpoint bound (S : schema) (reg name : string) (v : nat) : option string :=
  match reg_lookup S reg name v with
  | Some c => Some c
  | None => match v with
            | 0 => None
            | 1 => None
            | S v' => bound S reg name v'
            end
  end.

(** * parse *)

Inductive outcome := Msg (cid : string) | NoMsg | PRaise (e : string) | OutOfFuel.

(** what the dispatchers read from the message *)
Record view := mkV { v_wo : path -> string -> option (option string); v_int : path -> Z }.
Definition view_of (S : schema) (m : pb) : view :=
  mkV (which_oneof S m)
      (fun p => match lookup p (vals m) with Some (VS (SInt z)) => z | _ => 0%Z end).

Fixpoint cparse (S : schema) (fuel : nat) (v : nat) (vw : view) (cid : string) : outcome :=
  match fuel with
  | 0 => OutOfFuel
  | S fuel' =>
    match find_class S cid with
    | None => PRaise "AttributeError"
    | Some (CWrap _ _) => Msg cid
    | Some (CFixed _) => Msg cid
    | Some (COpaque _) => PRaise "Opaque"
    | Some (CDomain p g reg) =>
      match v_wo vw p g with
      | None => PRaise "ValueError"
      | Some None => PRaise "UnsupportedVersionException"
      | Some (Some mem) => match bound S reg mem v with
                           | None => PRaise "UnsupportedVersionException"
                           | Some c => cparse S fuel' v vw c
                           end
      end
    | Some (COneofSwitch p g cases) =>
      match v_wo vw p g with
      | None => PRaise "ValueError"
      | Some None => NoMsg
      | Some (Some mem) => match assoc mem cases with
                           | None => NoMsg
                           | Some c => cparse S fuel' v vw c
                           end
      end
    | Some (CValueSwitch p cases) =>
      match assocZ (v_int vw p) cases with
      | None => NoMsg
      | Some (reg, name) => match bound S reg name v with
                            | None => PRaise "UnsupportedVersionException"
                            | Some c => Msg c
                            end
      end
    end
  end.

Definition parse_fuel : nat := 6.

Inductive decoded := Decoded (m : pb) | DecodeError.

(** ProtocolHub.parse on the result of Message.ParseFromString *)
Definition hub_parse_view (S : schema) (v : nat) (vw : view) : outcome :=
  let catch o := match o with
                 | PRaise e => if String.eqb e "UnsupportedVersionException" && s_unsupported_caught S then NoMsg else o
                 | _ => o
                 end in
  match v_wo vw [] "msg" with
  | None => PRaise "ValueError"
  | Some None => if s_none_guard S then NoMsg else catch (PRaise "UnsupportedVersionException")
  | Some (Some d) => match bound S (s_hub S) d v with
                     | None => catch (PRaise "UnsupportedVersionException")
                     | Some c => catch (cparse S parse_fuel v vw c)
                     end
  end.

Definition hub_parse (S : schema) (v : nat) (d : decoded) : outcome :=
  match d with
  | DecodeError => if s_decode_caught S then NoMsg else PRaise "DecodeError"
  | Decoded m => hub_parse_view S v (view_of S m)
  end.

(** * Factories *)

(** an argument: None, or the projections of the object the factory reads *)
Definition args := list (string * option (list (string * value))).

(** ** Conversion operators *)
Fixpoint le_bytes (n : nat) (x : N) : list N :=
  match n with 0 => [] | S n' => N.modulo x 256 :: le_bytes n' (N.div x 256) end.
(** channel list -> 5-byte little-endian bitmap, bit i set for channel i (channels 0..37) *)
Definition chanmap_bytes (l : list sval) : option (list N) :=
  match fold_right (fun s acc => match s, acc with
                                 | SInt z, Some m => if Z.leb 0 z && Z.ltb z 38 then Some (N.lor m (N.shiftl 1 (Z.to_N z))) else None
                                 | _, _ => None
                                 end) (Some 0%N) l with
  | Some m => Some (le_bytes 5 m)
  | None => None
  end.
Definition bytes_of_ints (l : list sval) : option (list N) :=
  fold_right (fun s acc => match s, acc with
                           | SInt z, Some r => if Z.leb 0 z && Z.ltb z 256 then Some (Z.to_N z :: r) else None
                           | _, _ => None
                           end) (Some []) l.
Definition conv (op : string) (raw : value) : option value :=
  if String.eqb op "chanmap_bytes" then
    match raw with VL l => match chanmap_bytes l with Some b => Some (VS (SBytes b)) | None => None end | _ => None end
  else if String.eqb op "bdaddr_bytes" then   (* AA:BB:CC:DD:EE:FF (display order) -> FF EE DD CC BB AA *)
    match raw with VS (SBytes l) => if Nat.eqb (List.length l) 6 then Some (VS (SBytes (rev l))) else None | _ => None end
  else if String.eqb op "bytes_of_ints" then
    match raw with VL l => match bytes_of_ints l with Some b => Some (VS (SBytes b)) | None => None end | _ => None end
  else None.

Definition eval (e : expr) (ar : args) : option value :=
  match e with
  | EConv op p k d => match assoc p ar with
                      | Some (Some pr) => match assoc k pr with Some raw => conv op raw | None => None end
                      | Some None => d
                      | None => None
                      end
  | EConst v => Some v
  | EProj p k => match assoc p ar with Some (Some pr) => assoc k pr | _ => None end
  | EProjDef p k d => match assoc p ar with
                      | Some (Some pr) => assoc k pr
                      | Some None => Some d
                      | None => None
                      end
  | ECond p k c1 c2 => match assoc p ar with
                       | Some (Some pr) => match assoc k pr with
                                           | Some (VS (SBool b)) => Some (if b then c1 else c2)
                                           | _ => None
                                           end
                       | _ => None
                       end
  end.

Definition op_attr (o : fop) : string := match o with FSet a _ _ | FAppend a _ _ => a end.
Definition op_expr (o : fop) : expr := match o with FSet _ e _ | FAppend _ e _ => e end.
Definition op_guard (o : fop) : option string := match o with FSet _ _ g | FAppend _ _ g => g end.
Definition expr_param (e : expr) : option string :=
  match e with EConst _ => None | EProj p _ | EProjDef p _ _ | ECond p _ _ _ | EConv _ p _ _ => Some p end.

(** an op runs when its guard parameter was given (is not None) *)
Definition effective (o : fop) (ar : args) : bool :=
  match op_guard o with
  | None => true
  | Some g => match assoc g ar with Some (Some _) => true | _ => false end
  end.

Definition is_empty_value (v : value) : bool :=
  match v with VL [] | VR [] => true | _ => false end.

(** ... and, for an append loop, when there is something to iterate over (an empty list
    leaves the message untouched, whereas the keyword a=[] calls extend([])) *)
Definition runs (o : fop) (ar : args) : bool :=
  effective o ar
  && match o with
     | FAppend _ e _ => match eval e ar with Some v => negb (is_empty_value v) | None => true end
     | FSet _ _ _ => true
     end.

(** the (attribute, value) list a factory call amounts to; None = an argument is missing
    or of the wrong shape (outside the admissible arguments) *)
Fixpoint kw_of (ops : list fop) (ar : args) : option (list (string * value)) :=
  match ops with
  | [] => Some []
  | o :: r => if runs o ar
              then match eval (op_expr o) ar, kw_of r ar with
                   | Some v, Some l => Some ((op_attr o, v) :: l)
                   | _, _ => None
                   end
              else kw_of r ar
  end.

(** m.a.append(x) on a name that is not a declared field raises AttributeError *)
Definition appends_declared (attrs : list attr) (ops : list fop) (ar : args) : bool :=
  forallb (fun o => match o with
                    | FAppend a _ _ => negb (runs o ar) || match find_attr attrs a with Some _ => true | None => false end
                    | FSet _ _ _ => true
                    end) ops.

Definition run_factory (S : schema) (f : factory) (v : nat) (ar : args) : res (string * pb) :=
  match bound S (fa_reg f) (fa_target f) v with
  | None => Raise "UnsupportedVersionException"
  | Some cid =>
    match kw_of (fa_ops f) ar with
    | None => Raise "TypeError"
    | Some kw =>
      match find_class S cid with
      | Some (CWrap attrs _) =>
        if appends_declared attrs (fa_ops f) ar
        then match create S cid kw with Ok m => Ok (cid, m) | Raise e => Raise e end
        else Raise "AttributeError"
      | _ => match create S cid kw with Ok m => Ok (cid, m) | Raise e => Raise e end
      end
    end
  end.

Definition find_factory (S : schema) (dom name : string) : option factory :=
  find (fun f => String.eqb (fa_dom f) dom && String.eqb (fa_name f) name) (s_factories S).

(** * Expected read-back values (the property's right-hand side) *)

Definition unset_value (S : schema) (at_ : attr) : gres :=
  match resolve (s_desc S) (s_root S) (a_path at_) with
  | Some fd => if a_opt at_ then GNone else GVal (default_of fd)
  | None => GRaise "IndexError"
  end.

Definition expected (S : schema) (at_ : attr) (kw : list (string * value)) : gres :=
  match assoc (a_name at_) kw with
  | Some v => match resolve (s_desc S) (s_root S) (a_path at_) with
              | Some fd => GVal (norm_value (s_desc S) fd v)
              | None => GRaise "IndexError"
              end
  | None => unset_value S at_
  end.

Definition gres_eqb (a b : gres) : bool :=
  match a, b with
  | GNone, GNone => true
  | GVal x, GVal y => value_eqb x y
  | GRaise x, GRaise y => String.eqb x y
  | GWrapped, GWrapped => true
  | _, _ => false
  end.

(** * Well-formedness of a schema (finite obligation, computed on the regenerated tables) *)

Definition attrs_of (S : schema) (cid : string) : list attr :=
  match find_class S cid with Some (CWrap attrs _) => attrs | _ => [] end.
Definition selects_of (S : schema) (cid : string) : list path :=
  match find_class S cid with Some (CWrap _ sel) => sel | _ => [] end.

(** all prefixes of a path including itself *)
Definition closure1 (p : path) : list path := prefixes p ++ [p].
(** every path a wrapper class can ever make present / set *)
Definition allowed (attrs : list attr) (sel : list path) : list path :=
  flat_map (fun a => closure1 (a_path a)) attrs ++ flat_map closure1 sel.
(** every sub-message path present after construction whatever the arguments *)
Definition required (sel : list path) : list path := flat_map closure1 sel.

Definition subset_paths (a b : list path) : bool := forallb (fun p => mem_path p b) a.

Fixpoint nodup_str (l : list string) : bool :=
  match l with [] => true | x :: r => negb (existsb (String.eqb x) r) && nodup_str r end.
Fixpoint nodup_paths (l : list path) : bool :=
  match l with [] => true | x :: r => negb (mem_path x r) && nodup_paths r end.

Definition max_ver (S : schema) : nat := fold_right (fun r acc => Nat.max (r_ver r) acc) 1 (s_regs S).

(** the (path, oneof) pairs and the value paths the dispatchers read *)
Definition queries (S : schema) : list (path * string) :=
  ([], "msg") :: flat_map (fun c => match snd c with
                                   | CDomain p g _ | COneofSwitch p g _ => [(p, g)]
                                   | _ => []
                                   end) (s_classes S).
Definition value_queries (S : schema) : list path :=
  flat_map (fun c => match snd c with CValueSwitch p _ => [p] | _ => [] end) (s_classes S).

Definition query_members (S : schema) (pg : path * string) : list path :=
  match msg_at (s_desc S) (s_root S) (fst pg) with
  | Some mn => map (fun n => fst pg ++ [n]) (oneof_members (s_desc S) mn (snd pg))
  | None => []
  end.

(** the view of any message of wrapper class (attrs, sel), as far as the dispatchers look *)
Definition static_view (S : schema) (sel : list path) : view :=
  mkV (fun p g => match msg_at (s_desc S) (s_root S) p with
                  | None => None
                  | Some mn => match oneof_members (s_desc S) mn g with
                               | [] => None
                               | ms => Some (find (fun n => mem_path (p ++ [n]) (required sel)) ms)
                               end
                  end)
      (fun _ => 0%Z).

(** pbkind against the descriptor; the declared scalar kind is never consulted by the code
    (only PMsg / list-ness are), so scalar kinds are only required to name a scalar *)
Definition kind_ok (k : pbkind) (fd : fdesc) : bool :=
  match k, f_ty fd, f_rep fd with
  | PMsg, _, _ => false
  | POther, _, _ => false
  | _, TS KUnsupported, _ => false
  | _, TS _, _ => true
  | _, TM _, true => true
  | _, TM _, false => false
  end.
Definition kind_strict (k : pbkind) (fd : fdesc) : bool :=
  match k, f_ty fd, f_rep fd with
  | PArray, _, true => true
  | PInt, TS (KU32 | KU64 | KS32 | KS64 | KEnum), false => true
  | PBool, TS KBool, false => true
  | PBytes, TS KBytes, false => true
  | _, _, _ => false
  end.

Definition wf_attr (S : schema) (a : attr) : bool :=
  match resolve (s_desc S) (s_root S) (a_path a) with
  | None => false
  | Some fd => kind_ok (a_kind a) fd
               && Bool.eqb (a_opt a) (f_pres fd && negb (f_rep fd))
  end.

Definition wf_wrap_checks (S : schema) (attrs : list attr) (sel : list path) : list (string * bool) :=
  let al := allowed attrs sel in
  [ ("field path resolves, names a leaf field, optional flag agrees with presence", forallb (wf_attr S) attrs);
    ("attribute names distinct", nodup_str (map a_name attrs));
    ("attribute paths pairwise distinct", nodup_paths (map a_path attrs));
    (* no assignment or selection of this class ever clears anything of this class *)
    ("fields and own branch lie in one oneof branch", forallb (fun p => forallb (fun k => negb (cleared S p k)) al) (map a_path attrs ++ sel));
    (* the sub-messages holding the fields are present whatever the arguments *)
    ("construction selects the sub-messages holding the fields", forallb (fun a => subset_paths (prefixes (a_path a)) (required sel)) attrs);
    (* what the dispatchers look at is decided by the selection alone *)
    ("dispatch decided by the selection alone",
     forallb (fun pg => forallb (fun q => negb (mem_path q al) || mem_path q (required sel)) (query_members S pg)) (queries S)
     && forallb (fun q => negb (mem_path q al)) (value_queries S));
    ("construction with no argument selects a branch", negb (match sel with [] => true | _ => false end));
    (* lint, used by no theorem: a swap of two field paths shows as two crossed names *)
    ("no attribute is bound to the field named after another attribute",
     forallb (fun a => forallb (fun b => String.eqb (a_name a) (a_name b)
                                          || negb (String.eqb (last (a_path a) "") (a_name b))
                                          || String.eqb (last (a_path b) "") (a_name b)) attrs) attrs) ].
Definition wf_wrap (S : schema) (attrs : list attr) (sel : list path) : bool :=
  forallb snd (wf_wrap_checks S attrs sel).

Definition class_is_leaf (S : schema) (cid : string) : bool :=
  match find_class S cid with Some (CWrap _ _) | Some (CFixed _) => true | _ => false end.

(** every registered leaf class, at every version where bound yields it, is what parse returns
    for a message of that class *)
Definition wf_route (S : schema) : bool :=
  forallb (fun r =>
    forallb (fun v =>
      match bound S (r_reg r) (r_name r) v with
      | None => true
      | Some c => match find_class S c with
                  | Some (CWrap _ sel) =>
                      match hub_parse_view S v (static_view S sel) with Msg c' => String.eqb c c' | _ => false end
                  | Some (CFixed content) =>
                      match hub_parse S v (Decoded (canon S content)) with Msg c' => String.eqb c c' | _ => false end
                  | _ => true
                  end
      end) (seq 1 (max_ver S))) (s_regs S).

(** no dispatch chain is longer than the fuel, reaches an opaque class or asks for a oneof
    that does not exist *)
Fixpoint safe (S : schema) (n : nat) (cid : string) : bool :=
  match n with
  | 0 => false
  | S n' =>
    match find_class S cid with
    | None => false
    | Some (CWrap _ _) | Some (CFixed _) => true
    | Some (COpaque _) => false
    | Some (CDomain p g reg) =>
        negb (match query_members S (p, g) with [] => true | _ => false end)
        && forallb (fun r => if String.eqb (r_reg r) reg then safe S n' (r_cls r) else true) (s_regs S)
    | Some (COneofSwitch p g cases) =>
        negb (match query_members S (p, g) with [] => true | _ => false end)
        && forallb (fun c => safe S n' (snd c)) cases
    | Some (CValueSwitch _ _) => true
    end
  end.

Definition wf_parse (S : schema) : bool :=
  s_decode_caught S && s_none_guard S && s_unsupported_caught S
  && negb (match query_members S ([], "msg") with [] => true | _ => false end)
  && forallb (fun r => if String.eqb (r_reg r) (s_hub S) then safe S parse_fuel (r_cls r) else true) (s_regs S).

Definition wf_class (S : schema) (c : string * ckind) : bool :=
  match snd c with
  | CWrap attrs sel => wf_wrap S attrs sel
  | CFixed _ => true
  | CDomain _ _ _ => true
  | COneofSwitch _ _ cases => forallb (fun x => class_is_leaf S (snd x)) cases
  | CValueSwitch p cases =>
      match resolve (s_desc S) (s_root S) p with
      | Some fd => match f_ty fd, f_rep fd with TS (KU32 | KS32 | KEnum | KU64 | KS64), false => true | _, _ => false end
      | None => false
      end
      && forallb (fun x => forallb (fun v => match bound S (fst (snd x)) (snd (snd x)) v with
                                             | Some c' => class_is_leaf S c' | None => true end)
                                   (seq 1 (max_ver S))) cases
  | COpaque _ => false
  end.

Definition wf_regs (S : schema) : bool :=
  nodup_str (map fst (s_classes S))
  && forallb (fun r => match find_class S (r_cls r) with Some _ => true | None => false end) (s_regs S)
  && (fix nd (l : list regent) := match l with
        | [] => true
        | r :: t => negb (existsb (fun r' => String.eqb (r_reg r) (r_reg r') && String.eqb (r_name r) (r_name r')
                                            && Nat.eqb (r_ver r) (r_ver r')) t) && nd t
        end) (s_regs S)
  && forallb (fun r => Nat.leb 1 (r_ver r)) (s_regs S)
  && Nat.leb (max_ver S) (s_last S).

(** a factory: the class it binds exists at every version, every op names a field the bound
    class declares at that version or a later one, ops target pairwise distinct attributes,
    and every parameter flows to some attribute *)
Definition later_declares (S : schema) (f : factory) (v : nat) (a : string) : bool :=
  existsb (fun v' => match bound S (fa_reg f) (fa_target f) v' with
                     | Some c => match find_attr (attrs_of S c) a with Some _ => true | None => false end
                     | None => false
                     end) (seq v (Datatypes.S (max_ver S) - v)).

Definition declared_in (S : schema) (c a : string) : bool :=
  match find_attr (attrs_of S c) a with Some _ => true | None => false end.

Definition wf_factory_checks (S : schema) (f : factory) : list (string * bool) :=
  let vs := seq 1 (max_ver S) in
  let at_versions (chk : nat -> string -> bool) :=
    forallb (fun v => match bound S (fa_reg f) (fa_target f) v with Some c => chk v c | None => false end) vs in
  [ ("ops target pairwise distinct attributes", nodup_str (map op_attr (fa_ops f)));
    ("every parameter flows to some attribute",
     forallb (fun p => existsb (fun o => match expr_param (op_expr o) with Some q => String.eqb q (fst p) | None => false end) (fa_ops f))
             (fa_params f));
    ("a guard protects an expression over the guarded parameter",
     forallb (fun o => match op_guard o, expr_param (op_expr o) with
                       | Some g, Some q => String.eqb g q
                       | Some _, None => false
                       | None, _ => true
                       end) (fa_ops f));
    ("binds a message class at every version", at_versions (fun _ c => class_is_leaf S c));
    ("every keyword / assigned attribute is a declared field (at that or a later version)",
     at_versions (fun v _ => forallb (fun o => later_declares S f v (op_attr o)) (fa_ops f)));
    ("appended-to attributes are declared", at_versions (fun _ c =>
       forallb (fun o => match o with FAppend a _ _ => declared_in S c a | FSet _ _ _ => true end) (fa_ops f)));
    ("fixed-content class takes no argument", at_versions (fun _ c =>
       match find_class S c with Some (CFixed _) => match fa_ops f with [] => true | _ => false end | _ => true end)) ].
Definition wf_factory (S : schema) (f : factory) : bool := forallb snd (wf_factory_checks S f).

Definition wf_schema (S : schema) : bool :=
  wf_regs S && forallb (wf_class S) (s_classes S) && wf_route S && wf_parse S
  && forallb (wf_factory S) (s_factories S).

(** strict kind agreement (informative; not needed by any theorem) *)
Definition kind_mismatches (S : schema) : list (string * string) :=
  flat_map (fun c => match snd c with
                     | CWrap attrs _ => flat_map (fun a => match resolve (s_desc S) (s_root S) (a_path a) with
                                                           | Some fd => if kind_strict (a_kind a) fd then [] else [(fst c, a_name a)]
                                                           | None => [(fst c, a_name a)]
                                                           end) attrs
                     | _ => []
                     end) (s_classes S).

(** per-item diagnosis for the harness: failing classes / factories with the failing checks *)
Definition failing (l : list (string * bool)) : list string := map fst (filter (fun c => negb (snd c)) l).
Definition wf_report (S : schema) : list (string * list string) * list (string * string * list string) * (bool * bool * bool) :=
  (flat_map (fun c => if wf_class S c then [] else
                      [(fst c, match snd c with CWrap attrs sel => failing (wf_wrap_checks S attrs sel) | _ => ["class kind"] end)]) (s_classes S),
   flat_map (fun f => if wf_factory S f then [] else [(fa_dom f, fa_name f, failing (wf_factory_checks S f))]) (s_factories S),
   (wf_regs S, wf_route S, wf_parse S)).

(** * Correspondence entry points (evaluated by the harness on the implementation's outputs) *)

Inductive obs :=
| ObsMsg (cid : string) (fields : list (string * gres))
| ObsNone
| ObsRaise (e : string).

Definition subset_vals (a b : list (path * value)) : bool :=
  forallb (fun e => match lookup (fst e) b with Some v => value_eqb (snd e) v | None => false end) a.
Definition norm_vals (S : schema) (l : list (path * value)) : list (path * value) :=
  map (fun e => (fst e, match resolve (s_desc S) (s_root S) (fst e) with
                        | Some fd => norm_value (s_desc S) fd (snd e) | None => snd e end)) l.
(** two abstract messages hold the same fields and the same present sub-messages *)
Definition pb_same (S : schema) (a b : pb) : bool :=
  let va := norm_vals S (vals a) in let vb := norm_vals S (vals b) in
  subset_vals va vb && subset_vals vb va && subset_paths (pres a) (pres b) && subset_paths (pres b) (pres a).

Definition read_all (S : schema) (cid : string) (m : pb) : list (string * gres) :=
  map (fun a => (a_name a, get_attr S a m)) (attrs_of S cid).
Definition fields_eqb (a b : list (string * gres)) : bool :=
  list_eqb (fun x y => String.eqb (fst x) (fst y) && gres_eqb (snd x) (snd y)) a b.

Definition obs_of (S : schema) (v : nat) (m : pb) : obs :=
  match hub_parse S v (Decoded m) with
  | Msg c => ObsMsg c (read_all S c m)
  | NoMsg => ObsNone
  | PRaise e => ObsRaise e
  | OutOfFuel => ObsRaise "OutOfFuel"
  end.
Definition obs_eqb (a b : obs) : bool :=
  match a, b with
  | ObsMsg c f, ObsMsg c' f' => String.eqb c c' && fields_eqb f f'
  | ObsNone, ObsNone => true
  | ObsRaise e, ObsRaise e' => String.eqb e e'
  | _, _ => false
  end.

(** construction outcome as observed: the decoded serialisation, or the exception class *)
Inductive cobs := CObs (wire : pb) (o : obs) | CRaise (e : string).

(** wrapper case: version, registry, name, kwargs, what the implementation did *)
Definition check_wrapper (S : schema) (c : nat * string * string * list (string * value) * cobs) : bool :=
  let '(v, reg, name, kw, ob) := c in
  match bound S reg name v with
  | None => match ob with CRaise e => String.eqb e "UnsupportedVersionException" | _ => false end
  | Some cid =>
    match create S cid kw, ob with
    | Raise e, CRaise e' => String.eqb e e' || (String.eqb e "ValueError" && String.eqb e' "TypeError")
    | Ok m, CObs wire o => pb_same S (canon S m) wire && obs_eqb (obs_of S v (canon S m)) o
    | _, _ => false
    end
  end.

(** factory case: version, domain accessor, factory name, arguments, what the implementation did *)
Definition check_factory (S : schema) (c : nat * string * string * args * cobs) : bool :=
  let '(v, dom, name, ar, ob) := c in
  match find_factory S dom name with
  | None => false
  | Some f =>
    match run_factory S f v ar, ob with
    | Raise e, CRaise e' => String.eqb e e' || (String.eqb e "ValueError" && String.eqb e' "TypeError")
    | Ok (cid, m), CObs wire o => pb_same S (canon S m) wire && obs_eqb (obs_of S v (canon S m)) o
    | _, _ => false
    end
  end.

(** malformed-stream case: version, what protobuf decoded (or DecodeError), what hub.parse did *)
Definition check_parse (S : schema) (c : nat * decoded * obs) : bool :=
  let '(v, d, o) := c in
  match d with
  | DecodeError => obs_eqb (match hub_parse S v DecodeError with
                            | NoMsg => ObsNone | PRaise e => ObsRaise e | Msg c => ObsMsg c [] | OutOfFuel => ObsRaise "OutOfFuel" end) o
  | Decoded m => obs_eqb (obs_of S v m) o
  end.

(** conversion operator vs the live helper class: operator, raw argument, what the helper returned (None = it raised) *)
Definition check_conv (c : string * value * option value) : bool :=
  let '(op, raw, o) := c in
  match conv op raw, o with
  | Some a, Some b => value_eqb a b
  | None, None => true
  | _, _ => false
  end.

(** boolean form of the round-trip conclusion on one wrapper case (model-side search) *)
Definition roundtrip_b (S : schema) (v : nat) (reg name : string) (kw : list (string * value)) : bool :=
  match bound S reg name v with
  | None => false
  | Some cid =>
    match create S cid kw with
    | Raise _ => false
    | Ok m => match hub_parse S v (Decoded (canon S m)) with
              | Msg c => String.eqb c cid
                         && forallb (fun a => gres_eqb (get_attr S a (canon S m)) (expected S a kw)) (attrs_of S cid)
              | _ => false
              end
    end
  end.

(** * A three-class schema used for the non-vacuity example *)
Definition mini_schema : schema :=
  mkS [ mkM "M" [mkF "dom" 1 (TM "D") true false (Some "msg")];
        mkM "D" [mkF "one" 1 (TM "A") true false (Some "msg"); mkF "two" 2 (TM "B") true false (Some "msg")];
        mkM "A" [mkF "x" 1 (TS KU32) false false None; mkF "y" 2 (TS KS32) true false (Some "_y");
                 mkF "l" 3 (TS KBytes) false true None];
        mkM "B" [] ]
      "M"
      [ ("Dom", CDomain ["dom"] "msg" "Dom");
        ("A1", CWrap [mkA "x" ["dom"; "one"; "x"] PInt false] [["dom"; "one"]]);
        ("A2", CWrap [mkA "l" ["dom"; "one"; "l"] PArray false; mkA "x" ["dom"; "one"; "x"] PInt false;
                      mkA "y" ["dom"; "one"; "y"] PInt true] [["dom"; "one"]]);
        ("B1", CWrap [] [["dom"; "two"]]) ]
      [ mkR "Hub" "dom" 1 "Dom"; mkR "Dom" "one" 1 "A1"; mkR "Dom" "one" 2 "A2"; mkR "Dom" "two" 1 "B1" ]
      "Hub" 2
      [ mkFa "dom" "create_one" [("x", false); ("y", true)] "Dom" "one"
             [FSet "x" (EProj "x" "") None; FSet "y" (EProj "y" "") (Some "y")] ]
      true true true.
