(** C02 -- lemmas.  Generic facts about the abstract protobuf message (get after set,
    presence, oneof exclusion), Registry.bound (version fallback), parse dispatch, and their
    assembly into the round-trip / factory / totality theorems for ANY schema that passes the
    finite check [wf_schema]. *)
From Coq Require Import List NArith ZArith Arith Bool String Lia.
From Whad Require Import C02.Model.
Import ListNotations.
Open Scope string_scope.
Open Scope list_scope.

(** * Basics *)

Lemma path_eqb_eq a : forall b, path_eqb a b = true <-> a = b.
Proof.
  induction a as [|x a IH]; intros [|y b]; simpl; split; intro H; try reflexivity; try discriminate.
  - apply andb_true_iff in H as [H1 H2]. apply String.eqb_eq in H1. apply IH in H2. congruence.
  - inversion H; subst. rewrite String.eqb_refl. simpl. apply IH. reflexivity.
Qed.

Lemma path_eqb_refl a : path_eqb a a = true.
Proof. apply path_eqb_eq. reflexivity. Qed.

Lemma path_eqb_neq a b : a <> b -> path_eqb a b = false.
Proof. intros H. destruct (path_eqb a b) eqn:E; [apply path_eqb_eq in E; contradiction|reflexivity]. Qed.

Lemma mem_path_In p l : mem_path p l = true <-> In p l.
Proof.
  unfold mem_path. rewrite existsb_exists. split.
  - intros [x [Hin He]]. apply path_eqb_eq in He. subst. exact Hin.
  - intros H. exists p. split; [exact H|apply path_eqb_refl].
Qed.

Lemma subset_paths_In a b : subset_paths a b = true -> forall p, In p a -> In p b.
Proof.
  unfold subset_paths. rewrite forallb_forall. intros H p Hp. apply mem_path_In. apply H. exact Hp.
Qed.

Lemma assoc_In {A} k (l : list (string * A)) v : assoc k l = Some v -> In (k, v) l.
Proof.
  induction l as [|[k' v'] l IH]; simpl; [discriminate|].
  destruct (String.eqb k' k) eqn:E.
  - intros H. inversion H; subst. apply String.eqb_eq in E. subst. left. reflexivity.
  - intros H. right. apply IH. exact H.
Qed.

Lemma assoc_not_in {A} k (l : list (string * A)) : ~ In k (map fst l) -> assoc k l = None.
Proof.
  induction l as [|[k' v'] l IH]; simpl; [reflexivity|]. intros H.
  destruct (String.eqb k' k) eqn:E.
  - apply String.eqb_eq in E. exfalso. apply H. left. exact E.
  - apply IH. intros H'. apply H. right. exact H'.
Qed.

Lemma find_ext {A} (f g : A -> bool) l : (forall x, In x l -> f x = g x) -> find f l = find g l.
Proof.
  induction l as [|x l IH]; simpl; intros H; [reflexivity|].
  rewrite <- (H x (or_introl eq_refl)). destruct (f x); [reflexivity|].
  apply IH. intros y Hy. apply H. right. exact Hy.
Qed.

Lemma nodup_str_NoDup l : nodup_str l = true -> NoDup l.
Proof.
  induction l as [|x l IH]; simpl; intros H; [constructor|].
  apply andb_true_iff in H as [H1 H2]. constructor; [|apply IH; exact H2].
  intros Hin. apply negb_true_iff in H1.
  assert (existsb (String.eqb x) l = true) as E.
  { apply existsb_exists. exists x. split; [exact Hin|apply String.eqb_refl]. }
  congruence.
Qed.

Lemma nodup_paths_NoDup l : nodup_paths l = true -> NoDup l.
Proof.
  induction l as [|x l IH]; simpl; intros H; [constructor|].
  apply andb_true_iff in H as [H1 H2]. constructor; [|apply IH; exact H2].
  intros Hin. apply negb_true_iff in H1. apply mem_path_In in Hin. congruence.
Qed.

(** * Registry.bound *)

Lemma reg_lookup_in S reg name v c :
  reg_lookup S reg name v = Some c ->
  exists r, In r (s_regs S) /\ r_reg r = reg /\ r_name r = name /\ r_ver r = v /\ r_cls r = c.
Proof.
  unfold reg_lookup. destruct (find _ (s_regs S)) as [r|] eqn:E; [|discriminate].
  intros H. inversion H; subst. apply find_some in E as [Hin Hb].
  apply andb_true_iff in Hb as [Hb Hv]. apply andb_true_iff in Hb as [Hr Hn].
  apply String.eqb_eq in Hr. apply String.eqb_eq in Hn. apply Nat.eqb_eq in Hv.
  exists r. repeat split; assumption.
Qed.

(** what bound returns is registered under that registry and name at some version <= v,
    and no later version up to v registers the name: the version fallback *)
Lemma bound_spec S reg name v c :
  bound S reg name v = Some c ->
  exists v0, v0 <= v /\ reg_lookup S reg name v0 = Some c
             /\ forall v1, v0 < v1 <= v -> reg_lookup S reg name v1 = None.
Proof.
  induction v as [|v IH]; simpl.
  - destruct (reg_lookup S reg name 0) eqn:E; [|discriminate].
    intros H. inversion H; subst. exists 0. split; [lia|]. split; [exact E|]. intros v1 Hv. lia.
  - destruct (reg_lookup S reg name (Datatypes.S v)) eqn:E.
    + intros H. inversion H; subst. exists (Datatypes.S v). split; [lia|]. split; [exact E|]. intros; lia.
    + destruct v as [|v']; [discriminate|].
      intros H. apply IH in H as [v0 [Hle [Hl Hn]]]. exists v0. split; [lia|]. split; [exact Hl|].
      intros v1 Hv. destruct (Nat.eq_dec v1 (Datatypes.S (Datatypes.S v'))) as [->|Hne]; [exact E|].
      apply Hn. lia.
Qed.

Lemma bound_fallback S reg name v0 c :
  1 <= v0 -> reg_lookup S reg name v0 = Some c ->
  forall v, v0 <= v -> (forall v1, v0 < v1 <= v -> reg_lookup S reg name v1 = None) ->
  bound S reg name v = Some c.
Proof.
  intros H1 Hl v. induction v as [|v IH]; intros Hle Hn.
  - lia.
  - simpl. destruct (Nat.eq_dec v0 (Datatypes.S v)) as [<-|Hne].
    + rewrite Hl. reflexivity.
    + rewrite (Hn (Datatypes.S v)) by lia. destruct v as [|v']; [lia|].
      apply IH; [lia|]. intros v1 Hv. apply Hn. lia.
Qed.

Lemma bound_in_regs S reg name v c :
  bound S reg name v = Some c ->
  exists r, In r (s_regs S) /\ r_reg r = reg /\ r_name r = name /\ r_cls r = c.
Proof.
  intros H. apply bound_spec in H as [v0 [_ [Hl _]]]. apply reg_lookup_in in Hl as [r [? [? [? [? ?]]]]].
  exists r. repeat split; assumption.
Qed.

Lemma max_ver_ge S r : In r (s_regs S) -> r_ver r <= max_ver S.
Proof.
  unfold max_ver. induction (s_regs S) as [|x l IH]; simpl; [contradiction|].
  intros [->|H]; [lia|]. specialize (IH H). lia.
Qed.

Lemma max_ver_pos S : 1 <= max_ver S.
Proof. unfold max_ver. induction (s_regs S) as [|x l IH]; simpl; lia. Qed.

Lemma reg_lookup_above S reg name v : max_ver S < v -> reg_lookup S reg name v = None.
Proof.
  intros H. destruct (reg_lookup S reg name v) eqn:E; [|reflexivity].
  apply reg_lookup_in in E as [r [Hin [_ [_ [Hv _]]]]]. apply max_ver_ge in Hin. lia.
Qed.

(** above the last registered version, bound no longer changes *)
Lemma bound_stable S reg name v : max_ver S <= v -> bound S reg name v = bound S reg name (max_ver S).
Proof.
  induction v as [|v IH]; intros H.
  - pose proof (max_ver_pos S). lia.
  - destruct (Nat.eq_dec (max_ver S) (Datatypes.S v)) as [->|Hne]; [reflexivity|].
    simpl. rewrite reg_lookup_above by lia.
    destruct v as [|v']; [pose proof (max_ver_pos S); lia|]. apply IH. lia.
Qed.

(** * Parse never raises *)

Definition good_view (S : schema) (vw : view) : Prop :=
  forall p g, query_members S (p, g) <> [] -> v_wo vw p g <> None.

Lemma view_of_good S m : good_view S (view_of S m).
Proof.
  intros p g H. unfold view_of, which_oneof, query_members in *. simpl in *.
  destruct (msg_at (s_desc S) (s_root S) p) as [mn|]; [|contradiction H; reflexivity].
  destruct (oneof_members (s_desc S) mn g) eqn:E; [contradiction H; reflexivity|]. discriminate.
Qed.

Definition benign (o : outcome) : Prop :=
  match o with
  | Msg _ | NoMsg => True
  | PRaise e => e = "UnsupportedVersionException"
  | OutOfFuel => False
  end.

Lemma nonempty_neq {A} (l : list A) : negb (match l with [] => true | _ => false end) = true -> l <> [].
Proof. destruct l; simpl; [discriminate|]. intros _ H. discriminate. Qed.

Lemma cparse_safe S n : forall v vw cid,
  good_view S vw -> safe S n cid = true -> benign (cparse S n v vw cid).
Proof.
  induction n as [|n IH]; intros v vw cid Hg Hs; simpl in *; [discriminate|].
  destruct (find_class S cid) as [k|]; [|discriminate].
  destruct k as [attrs sel|c|p g reg|p g cases|p cases|why]; simpl; try exact I; try discriminate.
  - apply andb_true_iff in Hs as [Hq Hr]. apply nonempty_neq in Hq. pose proof (Hg p g Hq) as Hpg.
    destruct (v_wo vw p g) as [[mem|]|]; [| reflexivity | contradiction Hpg; reflexivity].
    destruct (bound S reg mem v) as [c|] eqn:Eb; [|reflexivity].
    apply bound_in_regs in Eb as [r [Hin [Hreg [_ Hc]]]].
    rewrite forallb_forall in Hr. specialize (Hr r Hin). rewrite Hreg, String.eqb_refl, Hc in Hr.
    apply IH; assumption.
  - apply andb_true_iff in Hs as [Hq Hr]. apply nonempty_neq in Hq. pose proof (Hg p g Hq) as Hpg.
    destruct (v_wo vw p g) as [[mem|]|]; [| exact I | contradiction Hpg; reflexivity].
    destruct (assoc mem cases) as [c|] eqn:Ea; [|exact I].
    apply assoc_In in Ea. rewrite forallb_forall in Hr. specialize (Hr _ Ea). simpl in Hr.
    apply IH; assumption.
  - destruct (assocZ (v_int vw p) cases) as [[reg name]|]; [|exact I].
    destruct (bound S reg name v); [exact I|reflexivity].
Qed.

Definition is_msg_or_none (o : outcome) : Prop := match o with Msg _ | NoMsg => True | _ => False end.

Lemma hub_parse_view_total S v vw :
  wf_parse S = true -> good_view S vw -> is_msg_or_none (hub_parse_view S v vw).
Proof.
  unfold wf_parse. intros H Hg.
  apply andb_true_iff in H as [H Hsafe]. apply andb_true_iff in H as [H Hq].
  apply andb_true_iff in H as [H Hc]. apply andb_true_iff in H as [Hd Hn].
  apply nonempty_neq in Hq. pose proof (Hg [] "msg" Hq) as Hroot.
  unfold hub_parse_view. rewrite Hn, Hc.
  destruct (v_wo vw [] "msg") as [[d|]|]; [| exact I | contradiction Hroot; reflexivity].
  destruct (bound S (s_hub S) d v) as [c|] eqn:Eb; [|simpl; exact I].
  apply bound_in_regs in Eb as [r [Hin [Hreg [_ Hcl]]]].
  rewrite forallb_forall in Hsafe. specialize (Hsafe r Hin). rewrite Hreg, String.eqb_refl, Hcl in Hsafe.
  pose proof (cparse_safe S parse_fuel v vw c Hg Hsafe) as Hb.
  destruct (cparse S parse_fuel v vw c) as [c'|  |e| ]; simpl in *; try exact I; try contradiction.
  subst e. simpl. exact I.
Qed.

Lemma wf_schema_parts S : wf_schema S = true ->
  wf_regs S = true /\ forallb (wf_class S) (s_classes S) = true /\ wf_route S = true /\ wf_parse S = true
  /\ forallb (wf_factory S) (s_factories S) = true.
Proof.
  unfold wf_schema. intros H.
  apply andb_true_iff in H as [H H5]. apply andb_true_iff in H as [H H4].
  apply andb_true_iff in H as [H H3]. apply andb_true_iff in H as [H1 H2]. repeat split; assumption.
Qed.

Lemma parse_total S : wf_schema S = true -> forall v d, is_msg_or_none (hub_parse S v d).
Proof.
  intros H v d. apply wf_schema_parts in H as [_ [_ [_ [Hp _]]]].
  destruct d as [m|]; simpl.
  - apply hub_parse_view_total; [exact Hp|apply view_of_good].
  - unfold wf_parse in Hp. apply andb_true_iff in Hp as [Hp _]. apply andb_true_iff in Hp as [Hp _].
    apply andb_true_iff in Hp as [Hp _]. apply andb_true_iff in Hp as [Hd _]. rewrite Hd. exact I.
Qed.

(** * Abstract message: get after set, presence, no interference *)

Lemma lookup_filter_keep {A} q (P : path * A -> bool) l :
  (forall k v, In (k, v) l -> k = q -> P (k, v) = true) ->
  lookup q (filter P l) = lookup q l.
Proof.
  induction l as [|[k v] l IH]; simpl; intros H; [reflexivity|].
  destruct (path_eqb k q) eqn:E.
  - apply path_eqb_eq in E. rewrite (H k v (or_introl eq_refl) E). simpl. subst. rewrite path_eqb_refl. reflexivity.
  - destruct (P (k, v)); simpl; [rewrite E|]; apply IH; intros; apply H; auto.
Qed.

Lemma lookup_In {A} q (l : list (path * A)) v : lookup q l = Some v -> In (q, v) l.
Proof.
  induction l as [|[k w] l IH]; simpl; [discriminate|].
  destruct (path_eqb k q) eqn:E.
  - intros H. inversion H; subst. apply path_eqb_eq in E. subst. left. reflexivity.
  - intros H. right. apply IH. exact H.
Qed.

Lemma In_lookup {A} q (l : list (path * A)) v : In (q, v) l -> exists w, lookup q l = Some w.
Proof.
  induction l as [|[k w] l IH]; simpl; [contradiction|].
  intros [H|H].
  - inversion H; subst. rewrite path_eqb_refl. eauto.
  - destruct (path_eqb k q); [eauto|apply IH; exact H].
Qed.

Lemma lookup_none_not_in {A} q (l : list (path * A)) : lookup q l = None -> ~ In q (map fst l).
Proof.
  intros H Hin. apply in_map_iff in Hin as [[k v] [Hk Hin]]. simpl in Hk. subst.
  apply In_lookup in Hin as [w Hw]. congruence.
Qed.

Lemma lookup_filter_nodup {A} q (P : path * A -> bool) l :
  NoDup (map fst l) ->
  lookup q (filter P l) = match lookup q l with
                          | Some v => if P (q, v) then Some v else None
                          | None => None
                          end.
Proof.
  induction l as [|[k v] l IH]; simpl; intros Hnd; [reflexivity|].
  inversion Hnd as [|? ? Hnotin Hnd']; subst.
  destruct (path_eqb k q) eqn:E.
  - apply path_eqb_eq in E. subst k. destruct (P (q, v)) eqn:EP; simpl.
    + rewrite path_eqb_refl. reflexivity.
    + rewrite IH by exact Hnd'.
      destruct (lookup q l) eqn:El; [|reflexivity].
      exfalso. apply Hnotin. apply lookup_In in El. apply in_map_iff. exists (q, a). split; [reflexivity|exact El].
  - destruct (P (k, v)); simpl; [rewrite E|]; apply IH; exact Hnd'.
Qed.

Lemma mem_path_app q a b : mem_path q (a ++ b) = mem_path q a || mem_path q b.
Proof. unfold mem_path. apply existsb_app. Qed.

Lemma mem_path_filter q f l : mem_path q (filter f l) = mem_path q l && f q.
Proof.
  unfold mem_path. induction l as [|x l IH]; simpl; [reflexivity|].
  destruct (f x) eqn:Ef; simpl.
  - rewrite IH. destruct (path_eqb q x) eqn:E; simpl; [|reflexivity].
    apply path_eqb_eq in E. subst. rewrite Ef. reflexivity.
  - rewrite IH. destruct (path_eqb q x) eqn:E; simpl; [|reflexivity].
    apply path_eqb_eq in E. subst. rewrite Ef. rewrite andb_false_r. reflexivity.
Qed.

Definition merge (v : value) (old : option value) : value :=
  match v, old with
  | VL l, Some (VL o) => VL (o ++ l)
  | VR l, Some (VR o) => VR (o ++ l)
  | _, _ => v
  end.

Lemma merge_none v : merge v None = v.
Proof. destruct v; reflexivity. Qed.

Lemma set_val_vals S p v m :
  vals (set_val S p v m)
  = (p, merge v (lookup p (vals m)))
    :: filter (fun e => negb (path_eqb (fst e) p) && negb (cleared S p (fst e))) (vals m).
Proof. reflexivity. Qed.

(** get after set, same field *)
Lemma lookup_set_same S p v m :
  lookup p (vals (set_val S p v m)) = Some (merge v (lookup p (vals m))).
Proof. rewrite set_val_vals. simpl. rewrite path_eqb_refl. reflexivity. Qed.

(** get after set, another field that the assignment does not clear (oneof exclusion is the
    only way an assignment touches another field) *)
Lemma lookup_set_other S p q v m :
  q <> p -> cleared S p q = false ->
  lookup q (vals (set_val S p v m)) = lookup q (vals m).
Proof.
  intros Hne Hc. rewrite set_val_vals. simpl. rewrite (path_eqb_neq p q) by congruence.
  apply lookup_filter_keep. intros k w _ ->. simpl. rewrite (path_eqb_neq q p Hne), Hc. reflexivity.
Qed.

(** a field of another member of the same oneof is cleared *)
Lemma lookup_set_cleared S p q v m :
  q <> p -> cleared S p q = true -> lookup q (vals (set_val S p v m)) = None.
Proof.
  intros Hne Hc. rewrite set_val_vals. simpl. rewrite (path_eqb_neq p q) by congruence.
  destruct (lookup q (filter _ (vals m))) eqn:E; [|reflexivity].
  apply lookup_In in E. apply filter_In in E as [_ E]. simpl in E. rewrite Hc in E.
  rewrite andb_false_r in E. discriminate.
Qed.

Lemma pres_set S p q v m :
  mem_path q (pres (set_val S p v m))
  = mem_path q (prefixes p) || (mem_path q (pres m) && negb (cleared S p q)).
Proof. unfold set_val. simpl. rewrite mem_path_app, mem_path_filter. reflexivity. Qed.

Lemma pres_select S p q m :
  mem_path q (pres (select S p m))
  = path_eqb q p || (mem_path q (prefixes p) || (mem_path q (pres m) && negb (cleared S p q))).
Proof.
  unfold select. simpl. fold (mem_path q (prefixes p ++ filter (fun k => negb (cleared S p k)) (pres m))).
  rewrite mem_path_app, mem_path_filter. reflexivity.
Qed.

(** setting a field makes the chain of sub-messages above it present *)
Lemma set_val_chain_present S p v m q : In q (prefixes p) -> In q (pres (set_val S p v m)).
Proof. intros H. apply mem_path_In. rewrite pres_set. apply mem_path_In in H. rewrite H. reflexivity. Qed.

(** members of a oneof exclude each other: after setting below one member, the others are absent *)
Lemma set_val_excludes S p v m q : cleared S p q = true -> ~ In q (prefixes p) -> q <> p -> present (set_val S p v m) q = false.
Proof.
  intros Hc Hnp Hne. unfold present. rewrite pres_set, Hc. simpl. rewrite andb_false_r, orb_false_r.
  destruct (mem_path q (prefixes p)) eqn:E; [apply mem_path_In in E; contradiction|]. simpl.
  unfold has_key. rewrite lookup_set_cleared by assumption. reflexivity.
Qed.

Lemma NoDup_map_filter {A B} (f : A -> B) (g : A -> bool) l : NoDup (map f l) -> NoDup (map f (filter g l)).
Proof.
  induction l as [|x l IH]; simpl; intros H; [constructor|].
  inversion H as [|? ? Hn Hd]; subst. destruct (g x); simpl; [|apply IH; exact Hd].
  constructor; [|apply IH; exact Hd].
  intros Hin. apply Hn. apply in_map_iff in Hin as [y [Hy Hin]]. apply filter_In in Hin as [Hin _].
  apply in_map_iff. exists y. split; assumption.
Qed.

Lemma set_val_nodup S p v m : NoDup (map fst (vals m)) -> NoDup (map fst (vals (set_val S p v m))).
Proof.
  intros H. rewrite set_val_vals. simpl. constructor; [|apply NoDup_map_filter; exact H].
  intros Hin. apply in_map_iff in Hin as [[k w] [Hk Hin]]. simpl in Hk. subst.
  apply filter_In in Hin as [_ Hb]. simpl in Hb. rewrite path_eqb_refl in Hb. discriminate.
Qed.

(** * Values *)

Lemma sval_eqb_eq a b : sval_eqb a b = true -> a = b.
Proof.
  destruct a as [x|x|x], b as [y|y|y]; simpl; try discriminate.
  - intros H. apply Z.eqb_eq in H. congruence.
  - intros H. apply Bool.eqb_prop in H. congruence.
  - revert y. induction x as [|a x IH]; intros [|b y]; try discriminate; [reflexivity|].
    intros H. apply andb_true_iff in H as [H1 H2]. apply N.eqb_eq in H1. apply IH in H2. congruence.
Qed.

Lemma list_eqb_eq {A} (e : A -> A -> bool) : (forall x y, e x y = true -> x = y) ->
  forall a b, list_eqb e a b = true -> a = b.
Proof.
  intros He. induction a as [|x a IH]; intros [|y b]; simpl; try discriminate; [reflexivity|].
  intros H. apply andb_true_iff in H as [H1 H2]. apply He in H1. apply IH in H2. congruence.
Qed.

Lemma record_eqb_eq a b : record_eqb a b = true -> a = b.
Proof.
  apply list_eqb_eq. intros [n1 s1] [n2 s2]. simpl. intros H. apply andb_true_iff in H as [H1 H2].
  apply String.eqb_eq in H1. apply sval_eqb_eq in H2. congruence.
Qed.

Lemma value_eqb_eq a b : value_eqb a b = true -> a = b.
Proof.
  destruct a, b; simpl; try discriminate; intros H.
  - apply sval_eqb_eq in H. congruence.
  - apply (list_eqb_eq sval_eqb sval_eqb_eq) in H. congruence.
  - apply (list_eqb_eq record_eqb record_eqb_eq) in H. congruence.
Qed.

Lemma norm_value_default D fd : norm_value D fd (default_of fd) = default_of fd.
Proof. unfold norm_value, default_of. destruct (f_ty fd), (f_rep fd); reflexivity. Qed.

(** * One wrapper class of a well-formed schema *)

Lemma find_attr_in attrs n a : find_attr attrs n = Some a -> In a attrs /\ a_name a = n.
Proof.
  unfold find_attr. intros H. apply find_some in H as [H1 H2]. apply String.eqb_eq in H2. split; assumption.
Qed.

Lemma find_attr_self attrs a : NoDup (map a_name attrs) -> In a attrs -> find_attr attrs (a_name a) = Some a.
Proof.
  unfold find_attr. induction attrs as [|x l IH]; simpl; intros Hnd Hin; [contradiction|].
  inversion Hnd as [|? ? Hn Hd]; subst. destruct Hin as [->|Hin].
  - rewrite String.eqb_refl. reflexivity.
  - destruct (String.eqb (a_name x) (a_name a)) eqn:E; [|apply IH; assumption].
    apply String.eqb_eq in E. exfalso. apply Hn. rewrite E. apply in_map. exact Hin.
Qed.

Lemma NoDup_map_inj {A B} (f : A -> B) l x y : NoDup (map f l) -> In x l -> In y l -> f x = f y -> x = y.
Proof.
  induction l as [|z l IH]; simpl; intros Hnd Hx Hy Hf; [contradiction|].
  inversion Hnd as [|? ? Hn Hd]; subst.
  destruct Hx as [->|Hx], Hy as [->|Hy]; try reflexivity.
  - exfalso. apply Hn. rewrite Hf. apply in_map. exact Hy.
  - exfalso. apply Hn. rewrite <- Hf. apply in_map. exact Hx.
  - apply IH; assumption.
Qed.

Lemma closure1_self p : In p (closure1 p).
Proof. unfold closure1. apply in_or_app. right. left. reflexivity. Qed.
Lemma closure1_prefix p q : In q (prefixes p) -> In q (closure1 p).
Proof. unfold closure1. intros H. apply in_or_app. left. exact H. Qed.

Section Wrapper.
  Variable S : schema.
  Variables (attrs : list attr) (sel : list path).
  Hypothesis Hwf : wf_wrap S attrs sel = true.

  Let A := allowed attrs sel.
  Let R := required sel.

  Lemma wf_wrap_facts :
    forallb (wf_attr S) attrs = true
    /\ NoDup (map a_name attrs)
    /\ NoDup (map a_path attrs)
    /\ (forall p k, In p (map a_path attrs ++ sel) -> In k A -> cleared S p k = false)
    /\ (forall a q, In a attrs -> In q (prefixes (a_path a)) -> In q R)
    /\ (forall pg q, In pg (queries S) -> In q (query_members S pg) -> In q A -> In q R)
    /\ (forall q, In q (value_queries S) -> ~ In q A).
  Proof.
    unfold wf_wrap, wf_wrap_checks in Hwf. cbn [forallb snd] in Hwf.
    apply andb_true_iff in Hwf as [H1 H]. apply andb_true_iff in H as [H2 H].
    apply andb_true_iff in H as [H3 H]. apply andb_true_iff in H as [H4 H].
    apply andb_true_iff in H as [H5 H]. apply andb_true_iff in H as [H6 H].
    apply andb_true_iff in H6 as [H6 H7].
    split; [exact H1|]. split; [apply nodup_str_NoDup; exact H2|]. split; [apply nodup_paths_NoDup; exact H3|].
    split.
    { intros p k Hp Hk. rewrite forallb_forall in H4. specialize (H4 p Hp). rewrite forallb_forall in H4.
      specialize (H4 k Hk). apply negb_true_iff in H4. exact H4. }
    split.
    { intros a q Ha Hq. rewrite forallb_forall in H5. specialize (H5 a Ha).
      eapply subset_paths_In; eassumption. }
    split.
    { intros pg q Hpg Hq HA. rewrite forallb_forall in H6. specialize (H6 pg Hpg). rewrite forallb_forall in H6.
      specialize (H6 q Hq). apply orb_true_iff in H6 as [H6|H6].
      - apply negb_true_iff in H6. apply mem_path_In in HA. fold A in H6. congruence.
      - apply mem_path_In. exact H6. }
    { intros q Hq HA. rewrite forallb_forall in H7. specialize (H7 q Hq). apply negb_true_iff in H7.
      apply mem_path_In in HA. fold A in H7. congruence. }
  Qed.

  Lemma R_sub_A q : In q R -> In q A.
  Proof. unfold R, A, allowed, required. intros H. apply in_or_app. right. exact H. Qed.

  Lemma attr_closure_A a q : In a attrs -> In q (closure1 (a_path a)) -> In q A.
  Proof.
    unfold A, allowed. intros Ha Hq. apply in_or_app. left. apply in_flat_map. exists a. split; assumption.
  Qed.

  Lemma sel_closure_R p q : In p sel -> In q (closure1 p) -> In q R.
  Proof. unfold R, required. intros Hp Hq. apply in_flat_map. exists p. split; assumption. Qed.

  (** invariant of a message of this class under construction *)
  Definition inv (m : pb) : Prop :=
    (forall k v, In (k, v) (vals m) -> In k A) /\ (forall k, In k (pres m) -> In k A)
    /\ (forall q, In q R -> In q (pres m)) /\ NoDup (map fst (vals m)).

  Lemma select_steps : forall todo done m,
    (forall p, In p (done ++ todo) -> In p sel) ->
    vals m = [] -> (forall k, In k (pres m) -> In k A) ->
    (forall q, In q (flat_map closure1 done) -> In q (pres m)) ->
    let m' := fold_left (fun m p => select S p m) todo m in
    vals m' = [] /\ (forall k, In k (pres m') -> In k A)
    /\ (forall q, In q (flat_map closure1 (done ++ todo)) -> In q (pres m')).
  Proof.
    destruct wf_wrap_facts as [_ [_ [_ [Hclr _]]]].
    induction todo as [|p todo IH]; intros done m Hsub Hv HA HQ; simpl.
    - rewrite app_nil_r. auto.
    - assert (In p sel) as Hp by (apply Hsub; apply in_or_app; right; left; reflexivity).
      replace (done ++ p :: todo) with ((done ++ [p]) ++ todo) by (rewrite <- app_assoc; reflexivity).
      apply IH.
      + intros q Hq. apply Hsub. rewrite <- app_assoc in Hq. exact Hq.
      + unfold select. simpl. rewrite Hv. reflexivity.
      + intros k Hk. apply mem_path_In in Hk. rewrite pres_select in Hk.
        apply orb_true_iff in Hk as [Hk|Hk].
        { apply path_eqb_eq in Hk. subst. apply R_sub_A. eapply sel_closure_R; [exact Hp|apply closure1_self]. }
        apply orb_true_iff in Hk as [Hk|Hk].
        { apply mem_path_In in Hk. apply R_sub_A. eapply sel_closure_R; [exact Hp|apply closure1_prefix; exact Hk]. }
        apply andb_true_iff in Hk as [Hk _]. apply mem_path_In in Hk. apply HA. exact Hk.
      + intros q Hq. rewrite flat_map_app in Hq. apply in_app_or in Hq. apply mem_path_In. rewrite pres_select.
        destruct Hq as [Hq|Hq].
        * assert (In q R) as HqR.
          { apply in_flat_map in Hq as [p0 [Hp0 Hq]]. eapply sel_closure_R; [|exact Hq].
            apply Hsub. apply in_or_app. left. exact Hp0. }
          rewrite (Hclr p q) by (try (apply in_or_app; right; exact Hp); apply R_sub_A; exact HqR).
          apply HQ in Hq. apply mem_path_In in Hq. rewrite Hq. simpl. rewrite !orb_true_r. reflexivity.
        * simpl in Hq. rewrite app_nil_r in Hq. unfold closure1 in Hq. apply in_app_or in Hq as [Hq|[<-|[]]].
          { apply mem_path_In in Hq. rewrite Hq. rewrite orb_true_r. reflexivity. }
          { rewrite path_eqb_refl. reflexivity. }
  Qed.

  Lemma init_inv : inv (init_wrap S sel) /\ vals (init_wrap S sel) = [].
  Proof.
    unfold init_wrap.
    destruct (select_steps sel [] pb_empty) as [Hv [HA HQ]]; simpl; auto; try contradiction.
    split; [|exact Hv]. unfold inv. rewrite Hv. simpl. repeat split; auto; try contradiction. constructor.
  Qed.

  Lemma set_val_inv a v m : In a attrs -> inv m -> inv (set_val S (a_path a) v m).
  Proof.
    destruct wf_wrap_facts as [_ [_ [_ [Hclr _]]]].
    intros Ha [Hv [Hp [Hr Hn]]]. unfold inv. repeat split.
    - intros k w Hin. rewrite set_val_vals in Hin. destruct Hin as [Hin|Hin].
      + inversion Hin; subst. eapply attr_closure_A; [exact Ha|apply closure1_self].
      + apply filter_In in Hin as [Hin _]. eapply Hv. exact Hin.
    - intros k Hk. apply mem_path_In in Hk. rewrite pres_set in Hk. apply orb_true_iff in Hk as [Hk|Hk].
      + apply mem_path_In in Hk. eapply attr_closure_A; [exact Ha|apply closure1_prefix; exact Hk].
      + apply andb_true_iff in Hk as [Hk _]. apply mem_path_In in Hk. apply Hp. exact Hk.
    - intros q Hq. apply mem_path_In. rewrite pres_set.
      rewrite (Hclr (a_path a) q); [|apply in_or_app; left; apply in_map; exact Ha|apply R_sub_A; exact Hq].
      apply Hr in Hq. apply mem_path_In in Hq. rewrite Hq. simpl. apply orb_true_r.
    - apply set_val_nodup. exact Hn.
  Qed.

  Lemma set_attr_inv a v m m' : set_attr S attrs a v m = Ok m' -> inv m -> inv m'.
  Proof.
    unfold set_attr. destruct (find_attr attrs a) as [at_|] eqn:Ef.
    - apply find_attr_in in Ef as [Hin _].
      destruct (resolve (s_desc S) (s_root S) (a_path at_)) as [fd|]; [|discriminate].
      destruct (fits (s_desc S) fd v); [|discriminate].
      intros H Hi. inversion H; subst. apply set_val_inv; assumption.
    - intros H Hi. inversion H; subst. exact Hi.
  Qed.

  Lemma set_all_inv : forall kw m m', set_all S attrs kw m = Ok m' -> inv m -> inv m'.
  Proof.
    induction kw as [|[a v] kw IH]; simpl; intros m m' H Hi.
    - inversion H; subst. exact Hi.
    - destruct (set_attr S attrs a v m) as [m1|e] eqn:E; [|discriminate].
      eapply IH; [exact H|]. eapply set_attr_inv; eassumption.
  Qed.

  (** what each declared field holds after the keyword arguments have been applied *)
  Lemma set_all_lookup : forall kw m m',
    set_all S attrs kw m = Ok m' -> NoDup (map fst kw) ->
    forall a, In a attrs ->
    lookup (a_path a) (vals m')
    = match assoc (a_name a) kw with
      | Some v => Some (merge v (lookup (a_path a) (vals m)))
      | None => lookup (a_path a) (vals m)
      end.
  Proof.
    destruct wf_wrap_facts as [_ [Hnames [Hpaths [Hclr _]]]].
    induction kw as [|[b w] kw IH]; simpl; intros m m' H Hnd a Ha.
    - inversion H; subst. reflexivity.
    - inversion Hnd as [|? ? Hnotin Hnd']; subst.
      destruct (set_attr S attrs b w m) as [m1|e] eqn:E; [|discriminate].
      specialize (IH m1 m' H Hnd' a Ha). rewrite IH. clear IH.
      unfold set_attr in E. destruct (find_attr attrs b) as [ab|] eqn:Ef.
      + apply find_attr_in in Ef as [Hab Hbn].
        destruct (resolve (s_desc S) (s_root S) (a_path ab)) as [fd|]; [|discriminate].
        destruct (fits (s_desc S) fd w); [|discriminate]. inversion E; subst m1. clear E.
        destruct (String.eqb b (a_name a)) eqn:Eb.
        * apply String.eqb_eq in Eb. assert (ab = a) as ->.
          { eapply NoDup_map_inj; [exact Hnames|exact Hab|exact Ha|congruence]. }
          rewrite (assoc_not_in (a_name a) kw) by (rewrite <- Eb; exact Hnotin).
          rewrite lookup_set_same. reflexivity.
        * assert (a_path a <> a_path ab) as Hne.
          { intros Hp. assert (a = ab) by (eapply NoDup_map_inj; [exact Hpaths|exact Ha|exact Hab|exact Hp]).
            subst. rewrite String.eqb_refl in Eb. discriminate. }
          rewrite lookup_set_other; [reflexivity|exact Hne|].
          apply Hclr; [apply in_or_app; left; apply in_map; exact Hab|].
          eapply attr_closure_A; [exact Ha|apply closure1_self].
      + inversion E; subst m1. destruct (String.eqb b (a_name a)) eqn:Eb; [|reflexivity].
        apply String.eqb_eq in Eb. subst b. rewrite (find_attr_self attrs a Hnames Ha) in Ef. discriminate.
  Qed.

  (** the fields read back after the wire round trip *)
  Lemma get_after_create kw m :
    set_all S attrs kw (init_wrap S sel) = Ok m -> NoDup (map fst kw) ->
    forall a, In a attrs -> get_attr S a (canon S m) = expected S a kw.
  Proof.
    destruct wf_wrap_facts as [Hattr _].
    intros Hc Hnd a Ha.
    pose proof (set_all_lookup kw _ _ Hc Hnd a Ha) as Hl.
    destruct init_inv as [Hi0 Hv0]. rewrite Hv0 in Hl. simpl in Hl.
    pose proof (set_all_inv _ _ _ Hc Hi0) as [_ [_ [_ Hnodup]]].
    rewrite forallb_forall in Hattr. specialize (Hattr a Ha). unfold wf_attr in Hattr.
    unfold get_attr, expected, unset_value, has_key, canon. simpl.
    destruct (resolve (s_desc S) (s_root S) (a_path a)) as [fd|] eqn:Er; [|discriminate].
    apply andb_true_iff in Hattr as [Hk Ho]. apply Bool.eqb_prop in Ho.
    assert (a_kind a <> PMsg) as Hnm by (intros E; rewrite E in Hk; discriminate).
    rewrite (lookup_filter_nodup (a_path a) (keep S) (vals m) Hnodup), Hl.
    destruct (assoc (a_name a) kw) as [v|] eqn:Ea.
    - rewrite merge_none. unfold keep. simpl. rewrite Er.
      destruct (a_kind a); try contradiction (Hnm eq_refl);
      rewrite Ho; destruct (f_rep fd) eqn:Erep, (f_pres fd) eqn:Epres; simpl;
      try reflexivity;
      destruct (value_eqb v (default_of fd)) eqn:Ev; simpl; try reflexivity;
      apply value_eqb_eq in Ev; subst v; rewrite norm_value_default; reflexivity.
    - destruct (a_kind a); try contradiction (Hnm eq_refl);
      rewrite Ho; destruct (f_rep fd), (f_pres fd); reflexivity.
  Qed.

  (** what the dispatchers see of any message of this class is fixed by the class alone *)
  Lemma view_static m : inv m ->
    (forall p g, In (p, g) (queries S) -> v_wo (view_of S (canon S m)) p g = v_wo (static_view S sel) p g)
    /\ (forall p, In p (value_queries S) -> v_int (view_of S (canon S m)) p = v_int (static_view S sel) p).
  Proof.
    destruct wf_wrap_facts as [_ [_ [_ [_ [_ [Hq Hvq]]]]]].
    intros [Hv [Hp [Hr Hn]]]. split.
    - intros p g Hpg. unfold view_of, static_view. cbn [v_wo]. unfold which_oneof.
      destruct (msg_at (s_desc S) (s_root S) p) as [mn|] eqn:Em; [|reflexivity].
      destruct (oneof_members (s_desc S) mn g) as [|n0 ms] eqn:Eo; [reflexivity|].
      f_equal. apply find_ext. intros n Hn'.
      assert (In (p ++ [n]) (query_members S (p, g))) as Hmem.
      { unfold query_members. cbn [fst snd]. rewrite Em, Eo. apply (in_map (fun x => p ++ [x])). exact Hn'. }
      fold R. destruct (mem_path (p ++ [n]) R) eqn:ER.
      + apply mem_path_In in ER. apply Hr in ER. unfold present, canon. simpl.
        apply mem_path_In in ER. rewrite ER. reflexivity.
      + destruct (present (canon S m) (p ++ [n])) eqn:EP; [|reflexivity].
        exfalso. assert (In (p ++ [n]) A) as HA.
        { unfold present, canon, has_key in EP. simpl in EP. apply orb_true_iff in EP as [EP|EP].
          - apply mem_path_In in EP. apply Hp. exact EP.
          - destruct (lookup (p ++ [n]) (filter (keep S) (vals m))) eqn:El; [|discriminate].
            apply lookup_In in El. apply filter_In in El as [El _]. eapply Hv. exact El. }
        specialize (Hq (p, g) _ Hpg Hmem HA). apply mem_path_In in Hq. fold R in Hq. congruence.
    - intros p Hpv. unfold view_of, static_view. cbn [v_int]. unfold canon. cbn [vals].
      destruct (lookup p (filter (keep S) (vals m))) eqn:El; [|reflexivity].
      exfalso. apply lookup_In in El. apply filter_In in El as [El _]. apply (Hvq p Hpv). eapply Hv. exact El.
  Qed.
End Wrapper.

(** * Dispatch depends only on what the dispatchers read; and not on the version above the last one *)

Lemma class_query S cid p g :
  (exists reg, find_class S cid = Some (CDomain p g reg)) \/ (exists cases, find_class S cid = Some (COneofSwitch p g cases)) ->
  In (p, g) (queries S).
Proof.
  unfold queries, find_class. intros H. right. apply in_flat_map.
  destruct H as [[reg H]|[cases H]]; apply assoc_In in H; eexists; (split; [exact H|]); simpl; left; reflexivity.
Qed.

Lemma class_value_query S cid p cases : find_class S cid = Some (CValueSwitch p cases) -> In p (value_queries S).
Proof.
  unfold value_queries, find_class. intros H. apply assoc_In in H. apply in_flat_map.
  eexists. split; [exact H|]. simpl. left. reflexivity.
Qed.

Lemma cparse_ext S n : forall v vw vw' cid,
  (forall p g, In (p, g) (queries S) -> v_wo vw p g = v_wo vw' p g) ->
  (forall p, In p (value_queries S) -> v_int vw p = v_int vw' p) ->
  cparse S n v vw cid = cparse S n v vw' cid.
Proof.
  induction n as [|n IH]; intros v vw vw' cid Hw Hi; simpl; [reflexivity|].
  destruct (find_class S cid) as [k|] eqn:Ef; [|reflexivity].
  destruct k as [attrs sel|c|p g reg|p g cases|p cases|why]; try reflexivity.
  - rewrite <- (Hw p g) by (eapply class_query; left; eauto).
    destruct (v_wo vw p g) as [[mem|]|]; try reflexivity.
    destruct (bound S reg mem v); [|reflexivity]. apply IH; assumption.
  - rewrite <- (Hw p g) by (eapply class_query; right; eauto).
    destruct (v_wo vw p g) as [[mem|]|]; try reflexivity.
    destruct (assoc mem cases); [|reflexivity]. apply IH; assumption.
  - rewrite <- (Hi p) by (eapply class_value_query; eauto). reflexivity.
Qed.

Lemma hub_parse_view_ext S v vw vw' :
  (forall p g, In (p, g) (queries S) -> v_wo vw p g = v_wo vw' p g) ->
  (forall p, In p (value_queries S) -> v_int vw p = v_int vw' p) ->
  hub_parse_view S v vw = hub_parse_view S v vw'.
Proof.
  intros Hw Hi. unfold hub_parse_view. rewrite <- (Hw [] "msg") by (left; reflexivity).
  destruct (v_wo vw [] "msg") as [[d|]|]; try reflexivity.
  destruct (bound S (s_hub S) d v); [|reflexivity].
  rewrite (cparse_ext S parse_fuel v vw vw' s Hw Hi). reflexivity.
Qed.

Lemma cparse_stable S n : forall v vw cid, max_ver S <= v -> cparse S n v vw cid = cparse S n (max_ver S) vw cid.
Proof.
  induction n as [|n IH]; intros v vw cid Hv; simpl; [reflexivity|].
  destruct (find_class S cid) as [k|]; [|reflexivity].
  destruct k as [attrs sel|c|p g reg|p g cases|p cases|why]; try reflexivity.
  - destruct (v_wo vw p g) as [[mem|]|]; try reflexivity. rewrite (bound_stable S reg mem v Hv).
    destruct (bound S reg mem (max_ver S)); [|reflexivity]. apply IH. exact Hv.
  - destruct (v_wo vw p g) as [[mem|]|]; try reflexivity.
    destruct (assoc mem cases); [|reflexivity]. apply IH. exact Hv.
  - destruct (assocZ (v_int vw p) cases) as [[reg name]|]; [|reflexivity].
    rewrite (bound_stable S reg name v Hv). reflexivity.
Qed.

Lemma hub_parse_view_stable S v vw : max_ver S <= v -> hub_parse_view S v vw = hub_parse_view S (max_ver S) vw.
Proof.
  intros Hv. unfold hub_parse_view. destruct (v_wo vw [] "msg") as [[d|]|]; try reflexivity.
  rewrite (bound_stable S (s_hub S) d v Hv). destruct (bound S (s_hub S) d (max_ver S)); [|reflexivity].
  rewrite (cparse_stable S parse_fuel v vw s Hv). reflexivity.
Qed.

(** a version in range that behaves like v *)
Lemma version_in_range S v : 1 <= v ->
  exists v', In v' (seq 1 (max_ver S))
             /\ (forall reg name, bound S reg name v = bound S reg name v')
             /\ (forall vw, hub_parse_view S v vw = hub_parse_view S v' vw).
Proof.
  intros Hv. destruct (le_lt_dec v (max_ver S)) as [Hle|Hgt].
  - exists v. split; [apply in_seq; lia|]. split; reflexivity.
  - exists (max_ver S). pose proof (max_ver_pos S). split; [apply in_seq; lia|].
    split; intros; [apply bound_stable; lia|apply hub_parse_view_stable; lia].
Qed.

Lemma outcome_eqb_msg o c : match o with Msg c' => String.eqb c c' | _ => false end = true -> o = Msg c.
Proof. destruct o; try discriminate. intros H. apply String.eqb_eq in H. congruence. Qed.

Lemma route_leaf S r v c :
  wf_route S = true -> In r (s_regs S) -> In v (seq 1 (max_ver S)) -> bound S (r_reg r) (r_name r) v = Some c ->
  match find_class S c with
  | Some (CWrap _ sel) => hub_parse_view S v (static_view S sel) = Msg c
  | Some (CFixed content) => hub_parse S v (Decoded (canon S content)) = Msg c
  | _ => True
  end.
Proof.
  unfold wf_route. intros H Hr Hv Hb. rewrite forallb_forall in H. specialize (H r Hr).
  rewrite forallb_forall in H. specialize (H v Hv). rewrite Hb in H.
  destruct (find_class S c) as [[attrs sel|content|? ? ?|? ? ?|? ?|?]|]; try exact I; apply outcome_eqb_msg; exact H.
Qed.

Lemma wf_class_of S cid k : forallb (wf_class S) (s_classes S) = true -> find_class S cid = Some k -> wf_class S (cid, k) = true.
Proof.
  intros H Hf. unfold find_class in Hf. apply assoc_In in Hf. rewrite forallb_forall in H. apply H. exact Hf.
Qed.

(** * The round trip *)

Theorem roundtrip S : wf_schema S = true ->
  forall (v : nat) (reg name cid : string) attrs sel (kw : list (string * value)) (m : pb),
    1 <= v -> bound S reg name v = Some cid -> find_class S cid = Some (CWrap attrs sel) ->
    NoDup (map fst kw) -> create S cid kw = Ok m ->
    hub_parse S v (Decoded (canon S m)) = Msg cid
    /\ forall a, In a attrs -> get_attr S a (canon S m) = expected S a kw.
Proof.
  intros Hwf v reg name cid attrs sel kw m Hv Hb Hc Hnd Hcr.
  apply wf_schema_parts in Hwf as [_ [Hcls [Hroute _]]].
  pose proof (wf_class_of S cid _ Hcls Hc) as Hw. simpl in Hw.
  unfold create in Hcr. rewrite Hc in Hcr. split.
  - destruct (init_inv S attrs sel Hw) as [Hi0 _].
    pose proof (set_all_inv S attrs sel Hw _ _ _ Hcr Hi0) as Hi.
    destruct (view_static S attrs sel Hw m Hi) as [Hwo Hint].
    simpl. rewrite (hub_parse_view_ext S v _ (static_view S sel) Hwo Hint).
    destruct (version_in_range S v Hv) as [v' [Hin [Hbv Hpv]]].
    rewrite Hpv. rewrite Hbv in Hb. apply bound_in_regs in Hb as Hr. destruct Hr as [r [Hr [Hreg [Hname _]]]].
    subst reg name. pose proof (route_leaf S r v' cid Hroute Hr Hin Hb) as H. rewrite Hc in H. exact H.
  - apply (get_after_create S attrs sel Hw kw m Hcr Hnd).
Qed.

Theorem roundtrip_fixed S : wf_schema S = true ->
  forall (v : nat) (reg name cid : string) content,
    1 <= v -> bound S reg name v = Some cid -> find_class S cid = Some (CFixed content) ->
    create S cid [] = Ok content /\ hub_parse S v (Decoded (canon S content)) = Msg cid.
Proof.
  intros Hwf v reg name cid content Hv Hb Hc.
  apply wf_schema_parts in Hwf as [_ [_ [Hroute _]]].
  split; [unfold create; rewrite Hc; reflexivity|].
  destruct (version_in_range S v Hv) as [v' [Hin [Hbv Hpv]]].
  simpl. rewrite Hpv. rewrite Hbv in Hb. apply bound_in_regs in Hb as Hr. destruct Hr as [r [Hr [Hreg [Hname _]]]].
  subst reg name. pose proof (route_leaf S r v' cid Hroute Hr Hin Hb) as H. rewrite Hc in H. exact H.
Qed.

(** keyword values within the range of their field are accepted *)
Definition admissible (S : schema) (attrs : list attr) (kw : list (string * value)) : Prop :=
  forall a v at_ fd, In (a, v) kw -> find_attr attrs a = Some at_ ->
    resolve (s_desc S) (s_root S) (a_path at_) = Some fd -> fits (s_desc S) fd v = true.

Lemma create_ok S : wf_schema S = true ->
  forall cid attrs sel kw, find_class S cid = Some (CWrap attrs sel) -> admissible S attrs kw ->
  exists m, create S cid kw = Ok m.
Proof.
  intros Hwf cid attrs sel kw Hc Hadm.
  apply wf_schema_parts in Hwf as [_ [Hcls _]].
  pose proof (wf_class_of S cid _ Hcls Hc) as Hw. simpl in Hw.
  destruct (wf_wrap_facts S attrs sel Hw) as [Hattr _].
  unfold create. rewrite Hc. generalize (init_wrap S sel).
  induction kw as [|[a v] kw IH]; intros m; simpl; [eauto|].
  assert (exists m1, set_attr S attrs a v m = Ok m1) as [m1 E].
  { unfold set_attr. destruct (find_attr attrs a) as [at_|] eqn:Ef; [|eauto].
    pose proof (find_attr_in _ _ _ Ef) as [Hin _].
    rewrite forallb_forall in Hattr. specialize (Hattr at_ Hin). unfold wf_attr in Hattr.
    destruct (resolve (s_desc S) (s_root S) (a_path at_)) as [fd|] eqn:Er; [|discriminate].
    rewrite (Hadm a v at_ fd (or_introl eq_refl) Ef Er). eauto. }
  rewrite E. apply IH. intros a' v' at' fd' Hin. apply Hadm. right. exact Hin.
Qed.

(** * Factories *)

Lemma kw_of_keys ops ar : forall kw, kw_of ops ar = Some kw ->
  map fst kw = map op_attr (filter (fun o => runs o ar) ops).
Proof.
  induction ops as [|o ops IH]; simpl; intros kw H.
  - inversion H. reflexivity.
  - destruct (runs o ar).
    + destruct (eval (op_expr o) ar); [|discriminate]. destruct (kw_of ops ar) as [l|]; [|discriminate].
      inversion H; subst. simpl. f_equal. apply IH. reflexivity.
    + apply IH. exact H.
Qed.

Lemma kw_of_assoc ops ar : forall kw, kw_of ops ar = Some kw -> NoDup (map op_attr ops) ->
  forall o, In o ops -> runs o ar = true ->
  exists val, eval (op_expr o) ar = Some val /\ assoc (op_attr o) kw = Some val.
Proof.
  induction ops as [|o0 ops IH]; simpl; intros kw H Hnd o Hin He; [contradiction|].
  inversion Hnd as [|? ? Hn Hd]; subst.
  destruct Hin as [->|Hin].
  - rewrite He in H. destruct (eval (op_expr o) ar) as [val|]; [|discriminate].
    destruct (kw_of ops ar) as [l|]; [|discriminate]. inversion H; subst.
    exists val. split; [reflexivity|]. simpl. rewrite String.eqb_refl. reflexivity.
  - assert (op_attr o0 <> op_attr o) as Hne.
    { intros E. apply Hn. rewrite E. apply in_map. exact Hin. }
    destruct (runs o0 ar).
    + destruct (eval (op_expr o0) ar) as [v0|]; [|discriminate].
      destruct (kw_of ops ar) as [l|] eqn:El; [|discriminate]. inversion H; subst.
      destruct (IH l eq_refl Hd o Hin He) as [val [H1 H2]]. exists val. split; [exact H1|].
      simpl. rewrite (proj2 (String.eqb_neq _ _) Hne). exact H2.
    + apply IH; assumption.
Qed.

Lemma kw_of_untargeted ops ar a : forall kw, kw_of ops ar = Some kw ->
  (forall o, In o ops -> runs o ar = true -> op_attr o <> a) -> assoc a kw = None.
Proof.
  intros kw H Hno. apply assoc_not_in. rewrite (kw_of_keys ops ar kw H).
  intros Hin. apply in_map_iff in Hin as [o [Ho Hin]]. apply filter_In in Hin as [Hin He].
  exact (Hno o Hin He Ho).
Qed.

Lemma wf_factory_facts S f : wf_factory S f = true ->
  NoDup (map op_attr (fa_ops f))
  /\ (forall p, In p (fa_params f) -> exists o, In o (fa_ops f) /\ expr_param (op_expr o) = Some (fst p))
  /\ (forall o g, In o (fa_ops f) -> op_guard o = Some g -> expr_param (op_expr o) = Some g).
Proof.
  unfold wf_factory, wf_factory_checks. cbn [forallb snd]. intros H.
  apply andb_true_iff in H as [H1 H]. apply andb_true_iff in H as [H2 H]. apply andb_true_iff in H as [H3 _].
  split; [apply nodup_str_NoDup; exact H1|]. split.
  - intros p Hp. rewrite forallb_forall in H2. specialize (H2 p Hp). apply existsb_exists in H2 as [o [Ho He]].
    exists o. split; [exact Ho|]. destruct (expr_param (op_expr o)) as [q|]; [|discriminate].
    apply String.eqb_eq in He. congruence.
  - intros o g Ho Hg. rewrite forallb_forall in H3. specialize (H3 o Ho). rewrite Hg in H3.
    destruct (expr_param (op_expr o)) as [q|]; [|discriminate]. apply String.eqb_eq in H3. congruence.
Qed.

Definition given (ar : args) (p : string) : Prop := exists pr, assoc p ar = Some (Some pr).

Theorem factory_carries_args S : wf_schema S = true ->
  forall (f : factory) (v : nat) (ar : args) (cid : string) (m : pb),
    In f (s_factories S) -> 1 <= v -> run_factory S f v ar = Ok (cid, m) ->
    (* same kind after the wire round trip *)
    hub_parse S v (Decoded (canon S m)) = Msg cid
    (* every keyword / assignment that runs is read back as the value of its expression *)
    /\ (forall o at_, In o (fa_ops f) -> runs o ar = true ->
          find_attr (attrs_of S cid) (op_attr o) = Some at_ ->
          exists val, eval (op_expr o) ar = Some val
                      /\ get_attr S at_ (canon S m) = expected S at_ [(a_name at_, val)])
    (* fields no running op targets are reported unset *)
    /\ (forall at_, In at_ (attrs_of S cid) ->
          (forall o, In o (fa_ops f) -> runs o ar = true -> op_attr o <> a_name at_) ->
          get_attr S at_ (canon S m) = unset_value S at_)
    (* every argument that is given is carried by an op that runs *)
    /\ (forall p, In p (fa_params f) -> given ar (fst p) ->
          exists o, In o (fa_ops f) /\ effective o ar = true /\ expr_param (op_expr o) = Some (fst p)).
Proof.
  intros Hwf f v ar cid m Hf Hv Hrun.
  pose proof (wf_schema_parts S Hwf) as [_ [_ [_ [_ Hfac]]]].
  rewrite forallb_forall in Hfac. specialize (Hfac f Hf).
  destruct (wf_factory_facts S f Hfac) as [Hnd [Hflow Hguard]].
  unfold run_factory in Hrun.
  destruct (bound S (fa_reg f) (fa_target f) v) as [c|] eqn:Eb; [|discriminate].
  destruct (kw_of (fa_ops f) ar) as [kw|] eqn:Ek; [|discriminate].
  assert (NoDup (map fst kw)) as Hkw.
  { rewrite (kw_of_keys _ _ _ Ek). apply NoDup_map_filter. exact Hnd. }
  assert (forall p, In p (fa_params f) -> given ar (fst p) ->
          exists o, In o (fa_ops f) /\ effective o ar = true /\ expr_param (op_expr o) = Some (fst p)) as Hparams.
  { intros p Hp [pr Hg]. destruct (Hflow p Hp) as [o [Ho He]]. exists o. split; [exact Ho|]. split; [|exact He].
    unfold effective. destruct (op_guard o) as [g|] eqn:Eg; [|reflexivity].
    rewrite (Hguard o g Ho Eg) in He. inversion He; subst. rewrite Hg. reflexivity. }
  destruct (find_class S c) as [[attrs sel|content|? ? ?|? ? ?|? ?|?]|] eqn:Ec;
    try (unfold create in Hrun; rewrite Ec in Hrun; discriminate).
  - destruct (appends_declared attrs (fa_ops f) ar); [|discriminate].
    destruct (create S c kw) as [m0|e] eqn:Ecr; [|discriminate]. inversion Hrun; subst c m0. clear Hrun.
    destruct (roundtrip S Hwf v _ _ cid attrs sel kw m Hv Eb Ec Hkw Ecr) as [Hkind Hget].
    split; [exact Hkind|]. unfold attrs_of. rewrite Ec. split; [|split; [|exact Hparams]].
    + intros o at_ Ho He Hfa. destruct (kw_of_assoc _ _ _ Ek Hnd o Ho He) as [val [Hev Has]].
      apply find_attr_in in Hfa as [Hin Hname]. exists val. split; [exact Hev|].
      rewrite (Hget at_ Hin). unfold expected. rewrite Hname, Has. simpl. rewrite String.eqb_refl. reflexivity.
    + intros at_ Hin Hno. rewrite (Hget at_ Hin). unfold expected.
      rewrite (kw_of_untargeted _ _ (a_name at_) _ Ek Hno). reflexivity.
  - destruct (create S c kw) as [m0|e] eqn:Ecr; [|discriminate]. inversion Hrun; subst c m0. clear Hrun.
    unfold create in Ecr. rewrite Ec in Ecr. destruct kw; [|discriminate]. inversion Ecr; subst m.
    destruct (roundtrip_fixed S Hwf v _ _ cid content Hv Eb Ec) as [_ Hkind].
    split; [exact Hkind|]. unfold attrs_of. rewrite Ec. split; [|split; [|exact Hparams]].
    + intros o at_ _ _ Hfa. discriminate.
    + intros at_ [].
Qed.

(** admissible, well-shaped arguments are accepted: the factory builds a message *)
Lemma wf_factory_versions S f : wf_factory S f = true ->
  forall v, In v (seq 1 (max_ver S)) ->
  exists c, bound S (fa_reg f) (fa_target f) v = Some c /\ class_is_leaf S c = true
    /\ (forall a e g, In (FAppend a e g) (fa_ops f) -> declared_in S c a = true)
    /\ (forall content, find_class S c = Some (CFixed content) -> fa_ops f = []).
Proof.
  unfold wf_factory, wf_factory_checks. cbn [forallb snd]. intros H v Hv.
  apply andb_true_iff in H as [_ H]. apply andb_true_iff in H as [_ H]. apply andb_true_iff in H as [_ H].
  apply andb_true_iff in H as [H4 H]. apply andb_true_iff in H as [_ H]. apply andb_true_iff in H as [H6 H].
  apply andb_true_iff in H as [H7 _].
  rewrite forallb_forall in H4, H6, H7. specialize (H4 v Hv). specialize (H6 v Hv). specialize (H7 v Hv).
  destruct (bound S (fa_reg f) (fa_target f) v) as [c|]; [|discriminate].
  exists c. split; [reflexivity|]. split; [exact H4|]. split.
  - intros a e g Hin. rewrite forallb_forall in H6. exact (H6 _ Hin).
  - intros content Hc. rewrite Hc in H7. destruct (fa_ops f); [reflexivity|discriminate].
Qed.

Theorem factory_total S : wf_schema S = true ->
  forall (f : factory) (v : nat) (ar : args) (kw : list (string * value)),
    In f (s_factories S) -> 1 <= v -> kw_of (fa_ops f) ar = Some kw ->
    (forall cid attrs sel, bound S (fa_reg f) (fa_target f) v = Some cid ->
       find_class S cid = Some (CWrap attrs sel) -> admissible S attrs kw) ->
    exists cid m, run_factory S f v ar = Ok (cid, m).
Proof.
  intros Hwf f v ar kw Hf Hv Hk Hadm.
  pose proof (wf_schema_parts S Hwf) as [_ [_ [_ [_ Hfac]]]].
  rewrite forallb_forall in Hfac. specialize (Hfac f Hf).
  destruct (version_in_range S v Hv) as [v' [Hin [Hbv _]]].
  destruct (wf_factory_versions S f Hfac v' Hin) as [c [Hb [Hleaf [Happ Hfix]]]].
  rewrite <- Hbv in Hb. unfold run_factory. rewrite Hb, Hk.
  unfold class_is_leaf in Hleaf.
  destruct (find_class S c) as [[attrs sel|content|? ? ?|? ? ?|? ?|?]|] eqn:Ec; try discriminate.
  - assert (appends_declared attrs (fa_ops f) ar = true) as Ha.
    { unfold appends_declared. apply forallb_forall. intros o Ho. destruct o as [a e g|a e g]; [reflexivity|].
      specialize (Happ a e g Ho). unfold declared_in, attrs_of in Happ. rewrite Ec in Happ.
      destruct (find_attr attrs a); [apply orb_true_r|discriminate]. }
    rewrite Ha. destruct (create_ok S Hwf c attrs sel kw Ec (Hadm c attrs sel Hb Ec)) as [m Hm].
    rewrite Hm. eauto.
  - rewrite (Hfix content eq_refl) in Hk. simpl in Hk. inversion Hk; subst kw.
    unfold create. rewrite Ec. eauto.
Qed.

(** * With the protobuf wire codec as a parameter *)

Section Wire.
  Variable S : schema.
  Hypothesis Hwf : wf_schema S = true.
  Variable serialize : pb -> list N.
  Variable parse_bytes : list N -> decoded.
  Hypothesis codec : forall m, parse_bytes (serialize m) = Decoded (canon S m).

  Theorem roundtrip_wire :
    forall (v : nat) (reg name cid : string) attrs sel (kw : list (string * value)),
      1 <= v -> bound S reg name v = Some cid -> find_class S cid = Some (CWrap attrs sel) ->
      NoDup (map fst kw) -> admissible S attrs kw ->
      exists m m', create S cid kw = Ok m /\ parse_bytes (serialize m) = Decoded m'
                   /\ hub_parse S v (Decoded m') = Msg cid
                   /\ forall a, In a attrs -> get_attr S a m' = expected S a kw.
  Proof.
    intros v reg name cid attrs sel kw Hv Hb Hc Hnd Hadm.
    destruct (create_ok S Hwf cid attrs sel kw Hc Hadm) as [m Hm].
    destruct (roundtrip S Hwf v reg name cid attrs sel kw m Hv Hb Hc Hnd Hm) as [H1 H2].
    exists m, (canon S m). repeat split; auto.
  Qed.

  Theorem parse_total_wire : forall (v : nat) (b : list N), is_msg_or_none (hub_parse S v (parse_bytes b)).
  Proof. intros v b. apply parse_total. exact Hwf. Qed.
End Wire.
