#!/bin/bash
# Build the Coq development from files on disk (offline) and syntax-check the harness.
set -e
cd "$(dirname "$0")"
python3 - <<'PY'
from harness import common
common.coq_makefile()
PY
rm -rf build
( cd coq && ulimit -s unlimited 2>/dev/null; timeout 3000 make -j16 2>&1 | tail -40 ; test ${PIPESTATUS[0]} -eq 0 )
python3 -m py_compile check harness/*.py harness/props/*.py harness/impl/*.py harness/translators/*.py 2>/dev/null || python3 -m py_compile check harness/*.py harness/props/*.py harness/impl/*.py
hits=$(python3 -c "from harness import common; h=common.forbidden_scan(); print('\n'.join(h))")
if [ -n "$hits" ]; then echo "forbidden declarations found:"; echo "$hits"; exit 1; fi
echo "setup ok"
