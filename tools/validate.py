#!/usr/bin/env python3
"""Validate MANIFEST.json and evidence/*.json against the schemas (run with python3-vt)."""
import json, sys, glob, jsonschema
ok = True
def v(path, schema):
    global ok
    try:
        jsonschema.validate(json.load(open(path)), json.load(open(schema)))
        print("ok  ", path)
    except Exception as e:
        ok = False
        print("FAIL", path, str(e).splitlines()[0])
v("/verif/MANIFEST.json", "/root/.vp/MANIFEST.schema.json")
for p in sorted(glob.glob("/verif/evidence/*.json")):
    v(p, "/root/.vp/EVIDENCE.schema.json")
    e = json.load(open(p))
    if e["level"] == "proof" and e["coverage"].get("obligations") != e["coverage"].get("discharged"):
        print("  note: obligations != discharged in", p)
sys.exit(0 if ok else 1)
