#!/usr/bin/env python3
"""Print the prompt for an independent *harmless refactoring* agent (controls: the checks must stay quiet) for
property <Id> and create its scratch worktree /tmp/ref-<Id>."""
import json, sys, subprocess
pid = sys.argv[1]; n = sys.argv[2] if len(sys.argv) > 2 else "3"; rnd = sys.argv[3] if len(sys.argv) > 3 else ""
p = [json.loads(l) for l in open("/verif/properties.jsonl") if json.loads(l)["id"] == pid][0]
wt = "/tmp/ref%s-%s" % (rnd, pid)
subprocess.run(["git", "-C", "/repo", "worktree", "remove", "--force", wt], capture_output=True)
subprocess.run(["git", "-C", "/repo", "branch", "-D", "ref%s/" % rnd + pid], capture_output=True)
r = subprocess.run(["git", "-C", "/repo", "worktree", "add", "-q", "-b", "ref%s/" % rnd + pid, wt, "main"], capture_output=True, text=True)
assert r.returncode == 0, r.stderr
import glob
tried = []
for mp in sorted(glob.glob("/verif/seeded/%s/refactor-*/meta.json" % pid)):
    try:
        mm = json.load(open(mp)); tried.append("  - %s: %s" % (mm.get("site", ""), str(mm.get("summary", ""))[:160].replace("\n", " ")))
    except Exception: pass
tried_txt = ("\nHarmless changes of this kind have ALREADY been tried by others; do not repeat them or close variants — pick other sites, other functions among the mechanisms, and other kinds of refactoring:\n" + "\n".join(tried) + "\n") if tried else ""
mech = "\n".join("  - %s (%s)" % (m.get("name"), m.get("where")) for m in p["anchors"]["mechanism"])
print(f"""You are helping evaluate a verification tool for false alarms by writing realistic HARMLESS changes. You have a scratch git worktree of the Python project whad-client at {wt} (a scratch branch). Work ONLY inside {wt} and scratch files under {wt}-scratch/. Do not look at or touch /verif or /repo. Do not use `git stash`. Run Python with `cd {wt} && /venv/bin/python …` (cwd comes first on sys.path, so the worktree's whad package is used). A harmless conda warning line is printed by every command; ignore it.

Here is a semantic property of the project that holds on this tree (property "{pid}": {p['title']}):

"{p['statement']}"
Quantified over: {p['quantifier']['text']}
Code meant to make it hold:
{mech}
Observe at: {'; '.join(p['anchors'].get('observe_at') or [])}

{tried_txt}
Task: produce {n} different, independent changes to the source (each a separate patch against the unmodified worktree), made AT OR NEAR the code listed above, of the kind a maintainer does every week and that provably do NOT change the behaviour of that code for ANY input, state or schedule — so the property still holds exactly as before: e.g. rename local variables or a private helper, extract a few lines into a helper function or inline one, turn a loop into a comprehension or the reverse, reorder statements that are independent, replace an if/elif chain by an equivalent early-return form, replace `a == x or a == y` by `a in (x, y)`, introduce a named constant for a literal, add type hints / docstrings / debug logging, switch string formatting style, hoist an invariant computation out of a loop, replace `struct.pack` calls by equivalent `int.to_bytes` or the reverse, split or merge a function's branches. Each change should touch 5–40 lines and be a genuine semantic no-op: same return values, same exceptions (type and point), same messages sent in the same order, same side effects on the objects involved, same locking/ordering of shared-state accesses. Vary the kind of refactoring and the site across the mechanisms listed above. Do NOT make any change that alters behaviour even in a corner case; if in doubt choose something else.

For each change k write into {wt}-scratch/r<k>/: `patch.diff` (output of `git diff` with only that change applied) and `meta.json` {{"property": "{pid}", "expected": "pass", "summary": …, "why_equivalent": "the argument that behaviour is unchanged for all inputs", "site": "file:function"}}. Verify each yourself: with the patch applied `cd {wt} && /venv/bin/python -m pytest -q -p no:cacheprovider --timeout=900 2>&1 | tail -3` shows the same result as without the change (exactly one pre-existing failure, tests/domain/ble/profile/test_clues.py::test_clues_data; 973 passed), and a few spot checks of the refactored function against the original on boundary inputs agree. Leave the worktree clean (`git checkout -- .`) at the end. Final answer: a short list of the changes and what you verified.""")
