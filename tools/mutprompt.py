#!/usr/bin/env python3
"""Print the prompt for an independent mutation agent for property <Id> and create its scratch worktree /tmp/mut-<Id>."""
import json, sys, subprocess
pid = sys.argv[1]; n = sys.argv[2] if len(sys.argv) > 2 else "3"; rnd = sys.argv[3] if len(sys.argv) > 3 else ""
p = [json.loads(l) for l in open("/verif/properties.jsonl") if json.loads(l)["id"] == pid][0]
wt = "/tmp/mut%s-%s" % (rnd, pid)
subprocess.run(["git", "-C", "/repo", "worktree", "remove", "--force", wt], capture_output=True)
subprocess.run(["git", "-C", "/repo", "branch", "-D", "mut%s/" % rnd + pid], capture_output=True)
r = subprocess.run(["git", "-C", "/repo", "worktree", "add", "-q", "-b", "mut%s/" % rnd + pid, wt, "main"], capture_output=True, text=True)
assert r.returncode == 0, r.stderr
import glob, os
tried = []
for mp in sorted(glob.glob("/verif/seeded/%s/*/meta.json" % pid)):
    try:
        mm = json.load(open(mp))
        site = mm.get("site") or ""
        summ = (mm.get("summary") or mm.get("what") or mm.get("description") or "")
        if isinstance(summ, str) and (site or summ): tried.append("  - %s: %s" % (site, summ[:140].replace("\n", " ")))
    except Exception: pass
known = [l.split(" ", 3)[3][:230] for l in open("/verif/KNOWN_FINDINGS.txt") if l.startswith("finding: property=%s " % pid)]
known_txt = ("\nKnown deviations of the unmodified tree (do not count these, and do not build on them):\n" + "\n".join("  - " + k for k in known) + "\n") if known else ""
tried_txt = known_txt + (("\nChanges of this kind have ALREADY been tried by others; do not repeat them or close variants (pick other sites, other mechanisms, other triggering conditions):\n" + "\n".join(tried[:40]) + "\n") if (rnd and tried) else "")
mech = "\n".join("  - %s (%s)" % (m.get("name"), m.get("where")) for m in p["anchors"]["mechanism"])
print(f"""You are helping evaluate a verification tool by writing realistic bugs. You have a scratch git worktree of the Python project whad-client at {wt} (a scratch branch). Work ONLY inside {wt} and scratch files under {wt}-scratch/. Do not look at or touch /verif or /repo. Run Python with `cd {wt} && /venv/bin/python …` (cwd comes first on sys.path, so the worktree's whad package is used; in standalone demo scripts insert os.getcwd() at the front of sys.path). A harmless conda warning line is printed by every command; ignore it.

Here is a semantic property of the project that currently holds on this tree (property "{pid}": {p['title']}):

"{p['statement']}"
Quantified over: {p['quantifier']['text']}
Code meant to make it hold:
{mech}
Observe at: {'; '.join(p['anchors'].get('observe_at') or [])}

{tried_txt}
Task: produce {n} different, independent changes to the source (each a separate patch against the unmodified worktree) that break this property while the code still imports and the existing test suite still passes: `cd {wt} && /venv/bin/python -m pytest -q -p no:cacheprovider --timeout=900 2>&1 | tail -3` must show the same result as without the change (exactly one pre-existing failure, tests/domain/ble/profile/test_clues.py::test_clues_data; 973 passed). Each change should look like a plausible refactoring / optimisation / slip a developer could make, and should need something SPECIFIC to manifest — a particular boundary value or length, a particular interleaving or ordering, a multi-step sequence of operations, an unusual but legal input, or two cooperating sites that each look fine alone — not something that ordinary use exposes at once. Vary the sites across the mechanisms listed above.

For each change k write into {wt}-scratch/m<k>/: `patch.diff` (output of `git diff` with only that change applied), `demo.py` (a small standalone program using the real classes that exits 0 on the unmodified code and exits 1, printing what went wrong, on the modified code), and `meta.json` {{"property": "{pid}", "summary": …, "needs": "what specific input/sequence/schedule makes it manifest", "site": "file:function"}}. Verify each yourself: with the patch applied the full test suite gives the same result and demo.py fails; after `git checkout -- .` demo.py passes. Leave the worktree clean (`git checkout -- .`) at the end. Final answer: a short list of the changes and what you verified.""")
