#!/usr/bin/env python3
"""Run the checks against every kept seeded change.

For each seeded/<Id>/<name>/patch.diff: make a scratch worktree of /repo (under /var/tmp),
apply the patch, run `VERIF_REPO=<wt> ./check <Id> --tier <tier>` (property taken from
meta.json 'property', may be a list), expect exit 1 and a VIOLATION line; remove the worktree.
Writes seeded/RESULTS.json and prints a table.  Usage: tools/seeded.py [--tier quick] [--only C11[/name]] [-j N]
"""
import fnmatch, argparse, json, os, subprocess, sys, glob, shutil, hashlib, time, fcntl, contextlib
from concurrent.futures import ThreadPoolExecutor
V = os.path.dirname(os.path.dirname(os.path.abspath(__file__)))

@contextlib.contextmanager
def wt_lock():
    f = open("/var/tmp/.seeded-worktree.lock", "w")
    fcntl.flock(f, fcntl.LOCK_EX)
    try: yield
    finally: f.close()

def run_one(item, tier):
    pid, name, d = item
    meta = {}
    mp = os.path.join(d, "meta.json")
    if os.path.exists(mp):
        try: meta = json.load(open(mp))
        except Exception: pass
    props = meta.get("property", pid)
    if isinstance(props, str): props = [props]
    wt = "/var/tmp/seeded-%s-%s-%s" % (pid, name.replace("/", "_"), hashlib.sha1(d.encode()).hexdigest()[:6])
    res = {"id": pid, "name": name, "props": props, "checks": {}}
    try:
        with wt_lock():
            subprocess.run(["git", "-C", "/repo", "worktree", "remove", "--force", wt], capture_output=True)
            shutil.rmtree(wt, ignore_errors=True)
            r = subprocess.run(["git", "-C", "/repo", "worktree", "add", "--detach", wt, "HEAD"], capture_output=True, text=True)
        if r.returncode: return dict(res, error="worktree: " + r.stderr[-300:])
        r = subprocess.run(["git", "-C", wt, "apply", os.path.join(d, "patch.diff")], capture_output=True, text=True)
        if r.returncode: return dict(res, error="patch does not apply: " + r.stderr[-300:])
        for p in props:
            t0 = time.time()
            env = dict(os.environ, VERIF_REPO=wt)
            r = subprocess.run([os.path.join(V, "check"), p, "--tier", tier], cwd=V, env=env, capture_output=True, text=True, timeout=3600)
            viol = [l for l in r.stdout.splitlines() if l.startswith("VIOLATION")]
            res["expected"] = meta.get("expected", "violation")
            res["checks"][p] = {"rc": r.returncode, "violations": viol[:5], "caught": r.returncode == 1 and bool(viol),
                                "with_input": any("no-failing-input-found" not in l for l in viol), "wall_s": round(time.time() - t0, 1)}
    except Exception as e:
        res["error"] = repr(e)
    finally:
        with wt_lock():
            subprocess.run(["git", "-C", "/repo", "worktree", "remove", "--force", wt], capture_output=True)
            shutil.rmtree(wt, ignore_errors=True)
        # the run's own build directory (harness.common._build_root: build/alt-<sha1(VERIF_REPO)[:8]>); replays live in /verif/replays
        shutil.rmtree(os.path.join(V, "build", "alt-" + hashlib.sha1(wt.encode()).hexdigest()[:8]), ignore_errors=True)
    return res

def main():
    ap = argparse.ArgumentParser()
    ap.add_argument("--tier", default="quick"); ap.add_argument("--only"); ap.add_argument("-j", type=int, default=4)
    a = ap.parse_args()
    items = []
    for d in sorted(glob.glob(os.path.join(V, "seeded", "*", "*"))):
        if os.path.exists(os.path.join(d, "patch.diff")):
            pid, name = d.split(os.sep)[-2:]
            if a.only and not (a.only == pid or a.only == pid + "/" + name or fnmatch.fnmatch(pid + "/" + name, a.only)): continue
            items.append((pid, name, d))
    with ThreadPoolExecutor(a.j) as ex:
        results = list(ex.map(lambda it: run_one(it, a.tier), items))
    out = os.path.join(V, "seeded", "RESULTS.json")
    old = {}
    if os.path.exists(out):
        try: old = {(r["id"], r["name"]): r for r in json.load(open(out))}
        except Exception: pass
    for r in results: old[(r["id"], r["name"])] = r
    json.dump(sorted(old.values(), key=lambda r: (r["id"], r["name"])), open(out, "w"), indent=1)
    ok = True
    for r in results:
        if "error" in r:
            print("%-5s %-40s ERROR %s" % (r["id"], r["name"], r["error"])); ok = False; continue
        for p, c in r["checks"].items():
            if r.get("expected") == "pass":
                print("%-5s %-40s check=%s %s (%ss)" % (r["id"], r["name"], p, "PASS as expected (harmless change)" if c["rc"] == 0 else "UNEXPECTED ALARM rc=%s" % c["rc"], c["wall_s"]))
                continue
            print("%-5s %-40s check=%s %s%s (%ss)" % (r["id"], r["name"], p, "CAUGHT" if c["caught"] else "MISSED rc=%s" % c["rc"],
                  " (with failing input)" if c.get("with_input") else "", c["wall_s"]))
        if r.get("expected") == "pass":
            if any(c["rc"] != 0 for c in r["checks"].values()): ok = False
        elif not any(c["caught"] for c in r["checks"].values()): ok = False
    sys.exit(0 if ok else 1)
main()
