#!/usr/bin/env python3
"""Rewrite `fixed:` lines of KNOWN_FINDINGS.txt to the form
   fixed: property=<Id> <hash on /repo main> <subject> -- <what failed>
matching each line to a commit of /repo main by its subject. Lines whose commit is not (yet) on main are left alone and listed."""
import re, subprocess, sys
log = subprocess.run(["git", "-C", "/repo", "log", "--format=%h\t%s", "main"], capture_output=True, text=True).stdout.splitlines()
commits = [l.split("\t", 1) for l in log if "\tfix:" in l]
hashes = {h for h, _ in commits}
out, pending = [], []
for line in open("/verif/KNOWN_FINDINGS.txt"):
    m = re.match(r"^fixed:\s+property=(\S+)\s+(.*)$", line.rstrip("\n"))
    if not m:
        out.append(line); continue
    pid, rest = m.groups()
    tok = rest.split()[0]
    cur_hash = None
    if re.fullmatch(r"[0-9a-f]{7,40}", tok):
        if any(h.startswith(tok[:7]) or tok.startswith(h) for h in hashes):
            out.append(line); continue
        # hash from a worktree branch: drop it and match by subject instead
        rest = rest.split(None, 1)[1] if len(rest.split(None, 1)) > 1 else ""
    rest_n = rest.strip().strip('"')
    best = None
    for h, s in commits:
        if s in rest or s.rstrip(".") in rest or rest_n.startswith(s[:60]):
            if best is None or len(s) > len(best[1]): best = (h, s)
    if best:
        tail = rest.replace('"' + best[1] + '"', "").replace(best[1], "").strip(" -")
        out.append("fixed: property=%s %s %s -- %s\n" % (pid, best[0], best[1], tail))
    else:
        pending.append(line.strip()[:120]); out.append(line)
open("/verif/KNOWN_FINDINGS.txt", "w").writelines(out)
print("pending (commit not on /repo main yet): %d" % len(pending))
for p in pending: print("  ", p)
