#!/usr/bin/env python3
"""Run every check registered in MANIFEST.json (quick or thorough) and summarise.
Usage: tools/run_all.py [--tier quick|thorough] [-j N] [--only C01,C02]"""
import argparse, json, os, subprocess, sys, time
from concurrent.futures import ThreadPoolExecutor
V = os.path.dirname(os.path.dirname(os.path.abspath(__file__)))
ap = argparse.ArgumentParser(); ap.add_argument("--tier", default="quick"); ap.add_argument("-j", type=int, default=3); ap.add_argument("--only")
a = ap.parse_args()
m = json.load(open(os.path.join(V, "MANIFEST.json")))
checks = [c for c in m["checks"] if not a.only or c["property_id"] in a.only.split(",")]
os.makedirs(os.path.join(V, "build", "logs"), exist_ok=True)
def run(c):
    cmd = c["quick_cmd"] if a.tier == "quick" else c.get("thorough_cmd", c["quick_cmd"])
    t0 = time.time()
    r = subprocess.run(cmd, shell=True, cwd=V, capture_output=True, text=True)
    open(os.path.join(V, "build", "logs", "%s.%s.log" % (c["property_id"], a.tier)), "w").write(r.stdout + r.stderr)
    lines = [l for l in r.stdout.splitlines() if l.startswith(("VIOLATION", "KNOWN-FINDING", "CHECK-BROKEN"))]
    return c["property_id"], r.returncode, round(time.time() - t0, 1), lines
bad = 0
with ThreadPoolExecutor(a.j) as ex:
    for pid, rc, wall, lines in ex.map(run, checks):
        print("%s rc=%d %6.1fs" % (pid, rc, wall))
        for l in lines: print("    " + l[:220])
        bad += rc != 0
sys.exit(1 if bad else 0)
