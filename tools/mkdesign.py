#!/usr/bin/env python3
"""Regenerate the generated tables inside DESIGN.md (between <!-- BEGIN:x --> / <!-- END:x --> markers):
   status  : per-property table from MANIFEST.json, evidence/*.json, KNOWN_FINDINGS.txt, Property.v
   seeded  : which check catches which kept seeded change, from seeded/*/*/meta.json and seeded/RESULTS.json"""
import json, os, re, glob
V = os.path.dirname(os.path.dirname(os.path.abspath(__file__)))
man = json.load(open(os.path.join(V, "MANIFEST.json")))
props = [json.loads(l) for l in open(os.path.join(V, "properties.jsonl"))]
kf = open(os.path.join(V, "KNOWN_FINDINGS.txt")).read().splitlines()
claimed = {c["property_id"] for c in man["checks"]}
rows = ["| Id | theorems in Property.v (closed) | `_refuted` / `_partial` | correspondence cases (quick) | `fix:` commits | known findings | as-built notes |",
        "|---|---|---|---|---|---|---|"]
for p in props:
    pid = p["id"]
    pv = os.path.join(V, "coq", "theories", pid, "Property.v")
    names = re.findall(r"^\s*(?:Theorem|Lemma|Example)\s+(\S+)", open(pv).read(), re.M) if os.path.exists(pv) else []
    ev = {}
    ep = os.path.join(V, "evidence", pid + ".json")
    if os.path.exists(ep):
        try: ev = json.load(open(ep))
        except Exception: pass
    cov = ev.get("coverage", {})
    nfix = sum(1 for l in kf if l.startswith("fixed: property=%s " % pid))
    nfind = sum(1 for l in kf if l.startswith("finding: property=%s " % pid))
    rows.append("| %s%s | %d (%s/%s obligations discharged) | %d / %d | %s | %d | %d | design/%s.md |" % (
        pid, "" if pid in claimed else " (not claimed)", len(names), cov.get("discharged", "?"), cov.get("obligations", "?"),
        sum(1 for n in names if "refuted" in n), sum(1 for n in names if "partial" in n),
        cov.get("traces_validated_against_impl", cov.get("evaluations", "?")), nfix, nfind, pid))
status = "\n".join(rows)
res = {}
rp = os.path.join(V, "seeded", "RESULTS.json")
if os.path.exists(rp):
    for r in json.load(open(rp)): res[(r["id"], r["name"])] = r
srows = ["| property | seeded change | origin | what it needs to manifest | result of `./check` (quick) |", "|---|---|---|---|---|"]
n_total = n_caught = n_input = 0
for d in sorted(glob.glob(os.path.join(V, "seeded", "*", "*"))):
    superseded = os.path.exists(os.path.join(d, "patch.diff.superseded"))
    if not os.path.exists(os.path.join(d, "patch.diff")) and not superseded: continue
    pid, name = d.split(os.sep)[-2:]
    meta = {}
    try: meta = json.load(open(os.path.join(d, "meta.json")))
    except Exception: pass
    r = res.get((pid, name))
    if superseded:
        r = None
    if superseded: out = "superseded (no longer applies after a later repair): " + str(meta.get("status", ""))[:220].replace("|", "/")
    elif r is None: out = "not run yet"
    elif "error" in r: out = "ERROR: " + r["error"][:60]
    else:
        parts = []
        if meta.get("expected") == "pass":
            out = "harmless change (control): " + "; ".join("%s: %s" % (ck, "exit 0 as expected" if c["rc"] == 0 else "UNEXPECTED alarm (exit %s)" % c["rc"]) for ck, c in r["checks"].items())
            srows.append("| %s | %s | %s | %s | %s |" % (pid, name, "control", str(meta.get("summary") or "")[:160].replace("|", "/"), out))
            continue
        for ck, c in r["checks"].items():
            parts.append("%s: %s" % (ck, ("VIOLATION with failing input" if c.get("with_input") else "VIOLATION no-failing-input-found") if c["caught"] else "MISSED (exit %s)" % c["rc"]))
        out = "; ".join(parts)
        n_total += 1; n_caught += any(c["caught"] for c in r["checks"].values()); n_input += any(c.get("with_input") and c["caught"] for c in r["checks"].values())
    origin = meta.get("origin") if isinstance(meta.get("origin"), str) and len(meta.get("origin")) < 120 else "independent sub-agent (property text only)" if name.startswith("indep") or pid == "C11" else ("reverse of a `fix:` commit" if name.startswith("revert") else "builder's own mutation")
    needs = str(meta.get("needs") or meta.get("needs_to_manifest") or meta.get("manifest") or meta.get("summary") or "")[:160].replace("|", "/").replace("\n", " ")
    srows.append("| %s | %s | %s | %s | %s |" % (pid, name, origin, needs, out))
seeded = "%d kept seeded changes have a recorded run: %d caught, %d of them with a concrete failing input.\n\n" % (n_total, n_caught, n_input) + "\n".join(srows)
dp = os.path.join(V, "DESIGN.md")
s = open(dp).read()
frows = ["| property | key | what fails (recorded, not repaired) |", "|---|---|---|"]
import re as _re
for l in kf:
    m = _re.match(r"^finding:\s+property=(\S+)\s+key=(\S+)\s+(.*)$", l)
    if m: frows.append("| %s | `%s` | %s |" % (m.group(1), m.group(2), m.group(3)[:400].replace("|", "/")))
nfixed = sum(1 for l in kf if l.startswith("fixed:"))
findings = "%d defects were repaired (`fixed:` lines, one `fix:` commit each on /repo main); %d are recorded:\n\n" % (nfixed, len(frows) - 2) + "\n".join(frows)
for key, txt in (("status", status), ("seeded", seeded), ("findings", findings)):
    s = re.sub(r"(<!-- BEGIN:%s -->).*?(<!-- END:%s -->)" % (key, key), lambda m: m.group(1) + "\n" + txt + "\n" + m.group(2), s, flags=re.S)
open(dp, "w").write(s)
print("tables regenerated")
