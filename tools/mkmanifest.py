#!/usr/bin/env python3
"""Assemble /verif/MANIFEST.json from harness/props/<Id>.manifest.json fragments."""
import json, os, glob
V = os.path.dirname(os.path.dirname(os.path.abspath(__file__)))
props = [json.loads(l) for l in open(os.path.join(V, "properties.jsonl"))]
checks, na = [], []
pending = {}
pp = os.path.join(V, "harness", "props", "NOT_CLAIMED.json")
if os.path.exists(pp):
    pending = json.load(open(pp))
integrated = set(open(os.path.join(V, "harness", "props", "INTEGRATED.txt")).read().split())
for p in props:
    pid = p["id"]
    frag = os.path.join(V, "harness", "props", pid + ".manifest.json")
    if pid in integrated and os.path.exists(frag) and os.path.exists(os.path.join(V, "harness", "props", pid + ".py")):
        f = json.load(open(frag))
        checks.append({
            "property_id": pid,
            "quick_cmd": "./check %s --tier quick" % pid,
            "thorough_cmd": "./check %s --tier thorough" % pid,
            "evidence_file": "/verif/evidence/%s.json" % pid,
            "replay_cmd_template": "./check %s --replay {path}" % pid,
            "engine": "coq-model-correspondence",
            "level_claimed": {"category": "proof", "text": f["level_text"], "design_ref": f.get("design_ref", "DESIGN.md §2 " + pid)},
            "level_note": f["level_note"],
            "technique": f["technique"],
        })
    else:
        na.append({"property_id": pid, "reason": pending.get(pid, "check under construction, not yet integrated and validated against /repo; nothing is claimed for this property yet")})
m = {
 "version": 1,
 "setup_cmd": "./setup.sh",
 "hooks": {"guard": "WHAD_CLIENT_VERIF", "enable": "no source hooks: checks instrument whad-client from outside the tree (monkey-patching, subclasses); the variable is set to 1 for every implementation driver",
           "baseline_off_cmd": "cd /repo && /venv/bin/python -m pytest -ra -q -p no:cacheprovider --timeout=900 --continue-on-collection-errors",
           "source_commits": [], "add_only": True},
 "engines": [{"name": "coq-model-correspondence", "path": "/verif/check",
              "serves_properties": [c["property_id"] for c in checks],
              "kind_free_text": "Coq 8.16.1 theories (coq/theories/<Id>/{Model,Proofs,Property}.v) + per-run correspondence/translation against /repo (harness/props, harness/impl)"}],
 "checks": checks,
 "not_applicable": na,
 "notes": "One CLI: ./check <Id> --tier quick|thorough. Known findings: KNOWN_FINDINGS.txt. Design: DESIGN.md.",
}
json.dump(m, open(os.path.join(V, "MANIFEST.json"), "w"), indent=1)
print("checks:", [c["property_id"] for c in checks]); print("not claimed:", [n["property_id"] for n in na])
